#!/bin/bash
# seedtest_wt.sh <property> <patch.diff> : like seedtest.sh, but in a scratch worktree of /repo's HEAD
# (does not touch /repo's working tree; contracts as committed). For my own regression runs only —
# the registered checks always run on /repo itself.
prop="$1"; patch="$2"; tag=$(basename $(dirname "$patch"))
export GOFLAGS=-mod=mod GOPROXY=off GOSUMDB=off GOTOOLCHAIN=local
wt=/tmp/wt/st_$tag
rm -rf $wt ${wt}_work; git -C /repo worktree prune
git -C /repo worktree add --detach $wt HEAD -q || exit 2
(cd $wt && git apply "$patch") || { echo "patch does not apply"; git -C /repo worktree remove --force $wt; exit 2; }
cd /verif && ${TQV:-./bin/tqv} -repo $wt -work ${wt}_work -prop "$prop" -tier quick -evidence ${wt}_work/evidence.json \
   -known /verif/known_findings.json -baseline /verif/baseline_obligations.json > ${wt}_work.out 2>&1
echo "exit=$?" >> ${wt}_work.out
grep "^VIOLATION\|^  obligation\|exit=\|^C[0-9]*:\|UNDECIDED" ${wt}_work.out | sed "s#$wt#/repo#g" | cut -c1-230
cp ${wt}_work.out /tmp/wt/last_$tag.out
git -C /repo worktree remove --force $wt; rm -rf ${wt}_work ${wt}_work.out
