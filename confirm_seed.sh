#!/bin/bash
# confirm_seed.sh <name> <seeddir> <pkgdir-rel> : independently confirm a seeded change in a fresh scratch worktree
# (patch applies, builds, existing suite passes, demo fails with / passes without), then store it under /verif/seeded/<name>/
name="$1"; src="$2"; pkg="${3:-.}"
export GOFLAGS=-mod=mod GOPROXY=off GOSUMDB=off GOTOOLCHAIN=local
wt=/tmp/wt/confirm_$name
rm -rf $wt; git -C /repo worktree prune; git -C /repo worktree add --detach $wt HEAD -q || exit 2
cd $wt
demo=$(ls $src/*_test.go | head -1); tname=$(grep -o "func Test[A-Za-z0-9_]*" $demo | head -1 | sed 's/func //')
cp $demo $pkg/zz_seed_demo_test.go
echo "== demo WITHOUT change"; go test -vet=off -count=1 -run "^$tname\$" ./$pkg 2>&1 | tail -3; r0=${PIPESTATUS[0]}
git apply $src/patch.diff || { echo "PATCH DOES NOT APPLY"; cd /; git -C /repo worktree remove --force $wt; exit 2; }
echo "== build"; go build ./... && echo BUILD_OK
echo "== demo WITH change"; go test -vet=off -count=1 -run "^$tname\$" ./$pkg 2>&1 | tail -4; r1=${PIPESTATUS[0]}
rm $pkg/zz_seed_demo_test.go
echo "== existing suite WITH change"; go test -vet=off -count=1 ./... 2>&1 | grep -v "no test files" | tail -8; r2=${PIPESTATUS[0]}
cd /; git -C /repo worktree remove --force $wt
echo "without=$r0 with=$r1 suite=$r2"
if [ "$r0" = 0 ] && [ "$r1" != 0 ] && [ "$r2" = 0 ]; then
  mkdir -p /verif/seeded/$name; cp $src/patch.diff $demo /verif/seeded/$name/; [ -f $src/meta.json ] && cp $src/meta.json /verif/seeded/$name/meta.agent.json
  echo CONFIRMED
else echo NOT-CONFIRMED; fi
