#!/bin/bash
# rebaseline_all.sh [tier]: regenerate baseline_obligations.json and evidence for every claimed property.
# Run after ANY edit of contracts (/repo/**/contracts_verif.go) or /verif/spec: clause ordinals are part
# of obligation names. Only obligations that discharge enter the baseline; UNDECIDED lines must be looked at.
cd /verif || exit 2
tier=${1:-quick}
for p in $(python3 -c "import json;print(' '.join(c['property_id'] for c in json.load(open('MANIFEST.json'))['checks']))"); do
  ./bin/tqv -prop $p -tier $tier -update-baseline -evidence evidence/$p.json 2>&1 | grep "SELFTEST.*MISS\|STALE\|^C[0-9]*:\|TOOL\|VACU\|UNDEC\|does not load" | cut -c1-250
done
