package tacquito

// Generic witness scenario for the body codecs (C01 / C02 / C04): values with empty, short and
// 255-byte fields and argument lists that contain empty arguments are encoded and compared
// with the RFC 8907 layouts written out by hand below; the hand-built bytes are decoded and
// compared with the values; every truncation of every encoding must be refused without a panic.

import (
	"bytes"
	"encoding/json"
	"fmt"
	"reflect"
	"strings"
	"testing"
)

func tqvU16(n int) []byte { return []byte{byte(n >> 8), byte(n)} }

func TestTqvWitness(t *testing.T) {
	var bad []string
	add := func(f string, a ...interface{}) {
		if len(bad) < 6 {
			bad = append(bad, fmt.Sprintf(f, a...))
		}
	}
	long := strings.Repeat("x", 255)
	argSets := [][]string{nil, {"service=shell"}, {"task_id=7", "", "cmd=show"}, {"", ""}, {"service=shell", "cmd=" + strings.Repeat("y", 251)}, {"priv-lvl=15 ", " autocmd=show version", "idletime=5"}}
	strs := []string{"", "u", "bob", long}
	n := 0
	check := func(name string, v EncoderDecoder, fresh func() EncoderDecoder, want []byte) {
		n++
		got, err := v.MarshalBinary()
		if err != nil {
			add("%s %+v: encode error %v", name, v, err)
			return
		}
		if !bytes.Equal(got, want) {
			add("%s: wire bytes differ from the RFC layout\n  got  % x\n  want % x", name, got, want)
			return
		}
		d := fresh()
		if err := d.UnmarshalBinary(want); err != nil {
			add("%s: decoding its own RFC layout failed: %v", name, err)
			return
		}
		re, err := d.MarshalBinary()
		if err != nil || !bytes.Equal(re, want) {
			add("%s: decode then encode changes the bytes (err %v)\n  got  % x\n  want % x", name, err, re, want)
		}
		// every truncation is refused, none panics
		for cut := 0; cut < len(want); cut++ {
			func() {
				defer func() {
					if r := recover(); r != nil {
						add("%s truncated to %d of %d bytes: decoder panicked: %v", name, cut, len(want), r)
					}
				}()
				x := fresh()
				if err := x.UnmarshalBinary(want[:cut]); err == nil {
					// C02: a byte string that decodes without error re-encodes to bytes that decode
					// to the same value again (the decoders are lenient about a missing length octet)
					y, err := x.MarshalBinary()
					z := fresh()
					if err != nil || z.UnmarshalBinary(y) != nil || !reflect.DeepEqual(x, z) {
						add("%s truncated to %d of %d bytes decodes without error but does not survive encode/decode (err %v)", name, cut, len(want), err)
					}
				}
			}()
		}
	}
	for _, user := range strs {
		for _, args := range argSets {
			// accounting request (arguments may be empty)
			var a Args
			var lens, vals []byte
			for _, s := range args {
				a = append(a, Arg(s))
				lens = append(lens, byte(len(s)))
				vals = append(vals, s...)
			}
			ar := NewAcctRequest(SetAcctRequestFlag(AcctFlagStart), SetAcctRequestMethod(AuthenMethodTacacsPlus), SetAcctRequestPrivLvl(PrivLvlUser),
				SetAcctRequestType(AuthenTypeASCII), SetAcctRequestService(AuthenServiceLogin), SetAcctRequestUser(AuthenUser(user)),
				SetAcctRequestPort("tty0"), SetAcctRequestRemAddr("10.0.0.1"), SetAcctRequestArgs(a))
			w := []byte{byte(AcctFlagStart), byte(AuthenMethodTacacsPlus), byte(PrivLvlUser), byte(AuthenTypeASCII), byte(AuthenServiceLogin), byte(len(user)), 4, 8, byte(len(args))}
			w = append(w, lens...)
			w = append(append(append(append(w, user...), "tty0"...), "10.0.0.1"...), vals...)
			check(fmt.Sprintf("AcctRequest(user %d bytes, args %q)", len(user), args), ar, func() EncoderDecoder { return &AcctRequest{} }, w)
			// authorization request / reply (arguments 2..255 bytes)
			ok := true
			for _, s := range args {
				if len(s) < 2 {
					ok = false
				}
			}
			if ok {
				rq := NewAuthorRequest(SetAuthorRequestMethod(AuthenMethodTacacsPlus), SetAuthorRequestPrivLvl(PrivLvlUser), SetAuthorRequestType(AuthenTypeASCII),
					SetAuthorRequestService(AuthenServiceLogin), SetAuthorRequestUser(AuthenUser(user)), SetAuthorRequestPort("tty0"), SetAuthorRequestRemAddr("10.0.0.1"), SetAuthorRequestArgs(a))
				w := []byte{byte(AuthenMethodTacacsPlus), byte(PrivLvlUser), byte(AuthenTypeASCII), byte(AuthenServiceLogin), byte(len(user)), 4, 8, byte(len(args))}
				w = append(w, lens...)
				w = append(append(append(append(w, user...), "tty0"...), "10.0.0.1"...), vals...)
				check(fmt.Sprintf("AuthorRequest(user %d bytes, args %q)", len(user), args), rq, func() EncoderDecoder { return &AuthorRequest{} }, w)
				rp := NewAuthorReply(SetAuthorReplyStatus(AuthorStatusPassAdd), SetAuthorReplyArgs(args...), SetAuthorReplyServerMsg(user), SetAuthorReplyData("d"))
				w = []byte{byte(AuthorStatusPassAdd), byte(len(args))}
				w = append(append(w, tqvU16(len(user))...), tqvU16(1)...)
				w = append(w, lens...)
				w = append(append(append(w, user...), "d"...), vals...)
				check(fmt.Sprintf("AuthorReply(msg %d bytes, args %q)", len(user), args), rp, func() EncoderDecoder { return &AuthorReply{} }, w)
			}
		}
		// authentication bodies
		st := NewAuthenStart(SetAuthenStartAction(AuthenActionLogin), SetAuthenStartPrivLvl(PrivLvlUser), SetAuthenStartType(AuthenTypePAP), SetAuthenStartService(AuthenServiceLogin),
			SetAuthenStartUser(AuthenUser(user)), SetAuthenStartPort("tty0"), SetAuthenStartRemAddr("10.0.0.1"), SetAuthenStartData(AuthenData(user)))
		w := []byte{byte(AuthenActionLogin), byte(PrivLvlUser), byte(AuthenTypePAP), byte(AuthenServiceLogin), byte(len(user)), 4, 8, byte(len(user))}
		w = append(append(append(append(w, user...), "tty0"...), "10.0.0.1"...), user...)
		check(fmt.Sprintf("AuthenStart(user/data %d bytes)", len(user)), st, func() EncoderDecoder { return &AuthenStart{} }, w)
		co := NewAuthenContinue(SetAuthenContinueUserMessage(AuthenUserMessage(user)), SetAuthenContinueData("dd"))
		w = append(append(tqvU16(len(user)), tqvU16(2)...), 0)
		w = append(append(w, user...), "dd"...)
		check(fmt.Sprintf("AuthenContinue(msg %d bytes)", len(user)), co, func() EncoderDecoder { return &AuthenContinue{} }, w)
		re := NewAuthenReply(SetAuthenReplyStatus(AuthenStatusGetPass), SetAuthenReplyFlag(AuthenReplyFlagNoEcho), SetAuthenReplyServerMsg(user), SetAuthenReplyData("dd"))
		w = append(append([]byte{byte(AuthenStatusGetPass), byte(AuthenReplyFlagNoEcho)}, tqvU16(len(user))...), tqvU16(2)...)
		w = append(append(w, user...), "dd"...)
		check(fmt.Sprintf("AuthenReply(msg %d bytes)", len(user)), re, func() EncoderDecoder { return &AuthenReply{} }, w)
		ac := NewAcctReply(SetAcctReplyStatus(AcctReplyStatusSuccess), SetAcctReplyServerMsg(user), SetAcctReplyData("dd"))
		w = append(append(tqvU16(len(user)), tqvU16(2)...), byte(AcctReplyStatusSuccess))
		w = append(append(w, user...), "dd"...)
		check(fmt.Sprintf("AcctReply(msg %d bytes)", len(user)), ac, func() EncoderDecoder { return &AcctReply{} }, w)
	}
	// 16-bit length fields: a 300-byte text (high length octet non-zero) and a text ending in CR LF
	for _, msg := range []string{strings.Repeat("m", 300), "hunter2-correct-horse\r\n"} {
		co := NewAuthenContinue(SetAuthenContinueUserMessage(AuthenUserMessage(msg)), SetAuthenContinueData("dd"))
		w := append(append(tqvU16(len(msg)), tqvU16(2)...), 0)
		w = append(append(w, msg...), "dd"...)
		check(fmt.Sprintf("AuthenContinue(msg %d bytes)", len(msg)), co, func() EncoderDecoder { return &AuthenContinue{} }, w)
		re := NewAuthenReply(SetAuthenReplyStatus(AuthenStatusGetPass), SetAuthenReplyServerMsg(msg), SetAuthenReplyData(AuthenData(msg)))
		w = append(append([]byte{byte(AuthenStatusGetPass), 0}, tqvU16(len(msg))...), tqvU16(len(msg))...)
		w = append(append(w, msg...), msg...)
		check(fmt.Sprintf("AuthenReply(msg and data %d bytes)", len(msg)), re, func() EncoderDecoder { return &AuthenReply{} }, w)
		ac := NewAcctReply(SetAcctReplyStatus(AcctReplyStatusSuccess), SetAcctReplyServerMsg(msg), SetAcctReplyData(AcctData(msg)))
		w = append(append(tqvU16(len(msg)), tqvU16(len(msg))...), byte(AcctReplyStatusSuccess))
		w = append(append(w, msg...), msg...)
		check(fmt.Sprintf("AcctReply(msg and data %d bytes)", len(msg)), ac, func() EncoderDecoder { return &AcctReply{} }, w)
		rp := NewAuthorReply(SetAuthorReplyStatus(AuthorStatusPassAdd), SetAuthorReplyArgs("service=shell"), SetAuthorReplyServerMsg(msg), SetAuthorReplyData(AuthorData(msg)))
		w = []byte{byte(AuthorStatusPassAdd), 1}
		w = append(append(w, tqvU16(len(msg))...), tqvU16(len(msg))...)
		w = append(w, byte(len("service=shell")))
		w = append(append(append(w, msg...), msg...), "service=shell"...)
		check(fmt.Sprintf("AuthorReply(msg and data %d bytes)", len(msg)), rp, func() EncoderDecoder { return &AuthorReply{} }, w)
	}
	out := map[string]interface{}{"obligation": "tacquito.<Body>.MarshalBinary/* UnmarshalBinary/*", "scenario": "hand-written RFC 8907 layouts for the seven bodies, truncations included", "cases": n, "mismatches": bad, "violated": len(bad) > 0}
	b, _ := json.Marshal(out)
	fmt.Println("TQV-WITNESS " + string(b))
}
