package tacquito

// Generic witness scenario for the client side (C03 / C05): Client.Send / SendOnly over a
// scripted connection. Checked: every buffer handed to the connection has an untouched header
// and a body equal to cleartext XOR the RFC 8907 4.5 pad computed independently — also when
// the first write attempt fails with a timeout; three replies delivered coalesced, split in
// the middle of a packet, or byte by byte come back from three consecutive Send calls exactly
// as they were sent, whatever the segmentation.

import (
	"bytes"
	"crypto/md5"
	"encoding/binary"
	"encoding/json"
	"fmt"
	"io"
	"net"
	"testing"
	"time"
)

type tqvTimeout struct{}

func (tqvTimeout) Error() string   { return "i/o timeout" }
func (tqvTimeout) Timeout() bool   { return true }
func (tqvTimeout) Temporary() bool { return true }

type tqvCConn struct {
	in         [][]byte
	writes     [][]byte
	failWrites int
}

func (c *tqvCConn) Read(b []byte) (int, error) {
	for len(c.in) > 0 && len(c.in[0]) == 0 {
		c.in = c.in[1:]
	}
	if len(c.in) == 0 {
		return 0, io.EOF
	}
	n := copy(b, c.in[0])
	c.in[0] = c.in[0][n:]
	return n, nil
}
func (c *tqvCConn) Write(b []byte) (int, error) {
	c.writes = append(c.writes, append([]byte(nil), b...))
	if c.failWrites > 0 {
		c.failWrites--
		return 0, &net.OpError{Op: "write", Err: tqvTimeout{}}
	}
	return len(b), nil
}
func (c *tqvCConn) Close() error                       { return nil }
func (c *tqvCConn) LocalAddr() net.Addr                { return &net.TCPAddr{} }
func (c *tqvCConn) RemoteAddr() net.Addr               { return &net.TCPAddr{} }
func (c *tqvCConn) SetDeadline(t time.Time) error      { return nil }
func (c *tqvCConn) SetReadDeadline(t time.Time) error  { return nil }
func (c *tqvCConn) SetWriteDeadline(t time.Time) error { return nil }

func tqvPad(secret []byte, sid uint32, ver, seq byte, n int) []byte {
	var pad, prev []byte
	for len(pad) < n {
		h := md5.New()
		var s [4]byte
		binary.BigEndian.PutUint32(s[:], sid)
		h.Write(s[:])
		h.Write(secret)
		h.Write([]byte{ver, seq})
		h.Write(prev)
		prev = h.Sum(nil)
		pad = append(pad, prev...)
	}
	return pad[:n]
}

func tqvMin(a, b int) int {
	if a < b {
		return a
	}
	return b
}

func tqvWire(secret []byte, typ byte, sid uint32, seq byte, body []byte) []byte {
	ver := byte(MajorVersion)<<4 | byte(MinorVersionDefault)
	h := []byte{ver, typ, seq, 0, 0, 0, 0, 0, 0, 0, 0, 0}
	binary.BigEndian.PutUint32(h[4:], sid)
	binary.BigEndian.PutUint32(h[8:], uint32(len(body)))
	enc := append([]byte(nil), body...)
	for i, p := range tqvPad(secret, sid, ver, seq, len(enc)) {
		enc[i] ^= p
	}
	return append(h, enc...)
}

func TestTqvWitness(t *testing.T) {
	secret := []byte("tqv-secret")
	var bad []string
	add := func(f string, a ...interface{}) {
		if len(bad) < 6 {
			bad = append(bad, fmt.Sprintf(f, a...))
		}
	}
	reqBody, _ := NewAuthenStart(SetAuthenStartAction(AuthenActionLogin), SetAuthenStartPrivLvl(PrivLvlUser), SetAuthenStartType(AuthenTypeASCII),
		SetAuthenStartService(AuthenServiceLogin), SetAuthenStartUser("alice"), SetAuthenStartPort("tty0"), SetAuthenStartRemAddr("10.0.0.1")).MarshalBinary()
	mkReq := func(sid uint32) *Packet {
		return NewPacket(SetPacketHeader(NewHeader(SetHeaderVersion(Version{MajorVersion: MajorVersion, MinorVersion: MinorVersionDefault}), SetHeaderType(Authenticate),
			SetHeaderSeqNo(1), SetHeaderSessionID(SessionID(sid)))), SetPacketBody(append([]byte(nil), reqBody...)))
	}
	reply := func(msg string) []byte {
		b, _ := NewAuthenReply(SetAuthenReplyStatus(AuthenStatusGetPass), SetAuthenReplyServerMsg(msg)).MarshalBinary()
		return b
	}
	// 1. wire bytes of a request, with and without a failed first write
	for _, fails := range []int{0, 1} {
		conn := &tqvCConn{failWrites: fails}
		c := &Client{crypter: newCrypter(secret, conn, false)}
		c.SendOnly(mkReq(0xdecafbad))
		for i, w := range conn.writes {
			want := tqvWire(secret, byte(Authenticate), 0xdecafbad, 1, reqBody)
			if !bytes.Equal(w, want) {
				add("SendOnly, %d failed write(s) first: write attempt %d is not header + (cleartext XOR pad): body starts % x, want % x", fails, i+1, w[12:tqvMin(len(w), 24)], want[12:24])
			}
		}
		if len(conn.writes) == 0 {
			add("SendOnly wrote nothing")
		}
	}
	// 2. replies under several segmentations
	r1, r2, r3 := reply("first"), reply("second reply, a good deal longer than the first one so that it crosses the reader's buffer size ..............."), reply("third")
	stream := append(append(tqvWire(secret, byte(Authenticate), 7, 2, r1), tqvWire(secret, byte(Authenticate), 7, 4, r2)...), tqvWire(secret, byte(Authenticate), 7, 6, r3)...)
	cut := len(tqvWire(secret, byte(Authenticate), 7, 2, r1)) + 20
	segs := map[string][][]byte{"coalesced in one segment": {stream}, "split in the middle of the second packet": {stream[:cut], stream[cut:]}, "byte by byte": nil}
	for i := range stream {
		segs["byte by byte"] = append(segs["byte by byte"], stream[i:i+1])
	}
	for _, name := range []string{"coalesced in one segment", "split in the middle of the second packet", "byte by byte"} {
		conn := &tqvCConn{in: segs[name]}
		c := &Client{crypter: newCrypter(secret, conn, false)}
		for k, want := range [][]byte{r1, r2, r3} {
			req := mkReq(7)
			req.Header.SeqNo = SequenceNumber(2*k + 1)
			got, err := c.Send(req)
			if err != nil || got == nil || !bytes.Equal(got.Body, want) {
				add("replies %s: Send #%d returned (%v, %v), want reply %d intact", name, k+1, got, err, k+1)
				break
			}
		}
	}
	out := map[string]interface{}{"obligation": "tacquito.Client.*", "scenario": "request wire bytes (with a failed first write) and three replies under three segmentations", "mismatches": bad, "violated": len(bad) > 0}
	b, _ := json.Marshal(out)
	fmt.Println("TQV-WITNESS " + string(b))
}
