package tacquito

// Generic witness scenario for crypt / crypter.write / newCrypter (C03): bodies of 0..70, 4096
// and 65536 bytes, secrets with leading / trailing white space an empty secret, a 64-octet and a 300-octet secret, several
// session ids and sequence numbers: the bytes written equal cleartext XOR the RFC 8907 4.5 pad
// computed independently, header bytes are untouched, the unencrypted flag sends the body
// verbatim, and applying crypt twice restores the cleartext.

import (
	"bytes"
	"crypto/md5"
	"encoding/binary"
	"encoding/json"
	"fmt"
	"net"
	"testing"
	"time"
)

type tqvConn struct{ out bytes.Buffer }

func (c *tqvConn) Read(b []byte) (int, error)         { return 0, fmt.Errorf("no input") }
func (c *tqvConn) Write(b []byte) (int, error)        { return c.out.Write(b) }
func (c *tqvConn) Close() error                       { return nil }
func (c *tqvConn) LocalAddr() net.Addr                { return &net.TCPAddr{} }
func (c *tqvConn) RemoteAddr() net.Addr               { return &net.TCPAddr{} }
func (c *tqvConn) SetDeadline(t time.Time) error      { return nil }
func (c *tqvConn) SetReadDeadline(t time.Time) error  { return nil }
func (c *tqvConn) SetWriteDeadline(t time.Time) error { return nil }

func tqvPad(secret []byte, sid uint32, ver, seq byte, n int) []byte {
	var pad, prev []byte
	for len(pad) < n {
		h := md5.New()
		var s [4]byte
		binary.BigEndian.PutUint32(s[:], sid)
		h.Write(s[:])
		h.Write(secret)
		h.Write([]byte{ver, seq})
		h.Write(prev)
		prev = h.Sum(nil)
		pad = append(pad, prev...)
	}
	return pad[:n]
}

func TestTqvWitness(t *testing.T) {
	var bad []string
	add := func(f string, a ...interface{}) {
		if len(bad) < 5 {
			bad = append(bad, fmt.Sprintf(f, a...))
		}
	}
	lens := []int{4096, 65536}
	for i := 0; i <= 70; i++ {
		lens = append(lens, i)
	}
	n := 0
	for _, secret := range [][]byte{[]byte("fooman"), []byte(" key with blanks \n"), []byte("\tx"), {}, bytes.Repeat([]byte("0123456789abcdef"), 4), bytes.Repeat([]byte("k"), 300)} {
		for _, sid := range []uint32{0, 1, 0xdeadbeef, 0xffffffff} {
			for _, seq := range []byte{1, 2, 255} {
				for _, l := range lens {
					if l > 70 && (sid != 1 || seq != 1) {
						continue
					}
					for _, flag := range []HeaderFlag{0, UnencryptedFlag} {
						n++
						clear := make([]byte, l)
						for i := range clear {
							clear[i] = byte(i*7 + 3)
						}
						ver := Version{MajorVersion: MajorVersion, MinorVersion: MinorVersionOne}
						hdr := &Header{Version: ver, Type: Authenticate, SeqNo: SequenceNumber(seq), Flags: flag, SessionID: SessionID(sid)}
						body := make([]byte, l) // non-nil also for l == 0 (write refuses a nil body)
						copy(body, clear)
						p := &Packet{Header: hdr, Body: body}
						conn := &tqvConn{}
						c := newCrypter(append([]byte(nil), secret...), conn, false)
						if _, err := c.write(p); err != nil {
							add("write failed for a %d-byte body: %v", l, err)
							continue
						}
						got := conn.out.Bytes()
						if len(got) != 12+l {
							add("%d bytes on the wire for a %d-byte body", len(got), l)
							continue
						}
						vb := byte(ver.MajorVersion)<<4 | byte(ver.MinorVersion)
						wantH := []byte{vb, byte(Authenticate), seq, byte(flag), 0, 0, 0, 0, 0, 0, 0, 0}
						binary.BigEndian.PutUint32(wantH[4:], sid)
						binary.BigEndian.PutUint32(wantH[8:], uint32(l))
						if !bytes.Equal(got[:12], wantH) {
							add("header bytes % x, want % x", got[:12], wantH)
						}
						want := append([]byte(nil), clear...)
						if flag&UnencryptedFlag == 0 {
							for i, x := range tqvPad(secret, sid, vb, seq, l) {
								want[i] ^= x
							}
						}
						if !bytes.Equal(got[12:], want) {
							add("secret %q session %#x seq %d length %d flag %d: wire body is not cleartext XOR the RFC pad", secret, sid, seq, l, flag)
							continue
						}
						// involution
						q := &Packet{Header: hdr, Body: append([]byte(nil), got[12:]...)}
						if err := crypt(secret, q); err != nil || !bytes.Equal(q.Body, clear) {
							add("crypt applied twice does not restore the cleartext (length %d, err %v)", l, err)
						}
					}
				}
			}
		}
	}
	out := map[string]interface{}{"obligation": "tacquito.crypt/*", "scenario": "wire bytes against an independent RFC 8907 4.5 pad", "cases": n, "mismatches": bad, "violated": len(bad) > 0}
	b, _ := json.Marshal(out)
	fmt.Println("TQV-WITNESS " + string(b))
}
