package stringy

// Witness for cmds/server/config/authorizers/stringy.CommandBasedAuthorizer.evaluate/pre@regexp.MatchString#1.1
// (C11): a permit rule "configure" with pattern `terminal|exclusive` must match the ENTIRE
// argument string; the arguments "terminal ; reload" are not matched entirely and must be denied.

import (
	"context"
	"encoding/json"
	"fmt"
	"testing"

	tq "github.com/facebookincubator/tacquito"
	"github.com/facebookincubator/tacquito/cmds/server/config"
)

type tqvLog struct{}

func (tqvLog) Infof(ctx context.Context, format string, args ...interface{})  {}
func (tqvLog) Errorf(ctx context.Context, format string, args ...interface{}) {}
func (tqvLog) Debugf(ctx context.Context, format string, args ...interface{}) {}

func TestTqvWitness(t *testing.T) {
	u := config.User{Name: "alice", Commands: []config.Command{{Name: "configure", Match: []string{"terminal|exclusive"}, Action: config.PERMIT}}}
	body := tq.AuthorRequest{User: "alice", Args: tq.Args{"service=shell", "cmd=configure", "cmd-arg=terminal", "cmd-arg=;", "cmd-arg=reload"}}
	a := NewCommandBasedAuthorizer(context.Background(), tqvLog{}, body, u)
	out := map[string]interface{}{
		"obligation": "cmds/server/config/authorizers/stringy.CommandBasedAuthorizer.evaluate/pre@regexp.MatchString#1.1",
		"scenario":   "permit configure /terminal|exclusive/ ; request: configure terminal ; reload",
	}
	if a == nil {
		out["violated"] = false
		out["note"] = "command path not selected"
	} else {
		granted := a.evaluate()
		out["argument_string"] = body.Args.CommandArgsNoLE()
		out["granted"] = granted
		out["violated"] = granted
	}
	b, _ := json.Marshal(out)
	fmt.Println("TQV-WITNESS " + string(b))
}
