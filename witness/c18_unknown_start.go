package handlers

// Witness for cmds/server/handlers.AuthenticateStart.Handle/pre@cmds/server/handlers.loggerProvider.Record#1.1 (C18):
// a PAP login START sent with minor version 0 is not in the router table; the handler records
// every request field with only "user-msg" obscured, but the PAP password travels in "data".

import (
	"context"
	"encoding/json"
	"fmt"
	"strings"
	"testing"

	tq "github.com/facebookincubator/tacquito"
	"github.com/facebookincubator/tacquito/cmds/server/config"
)

type tqvResp struct{ replies int }

func (r *tqvResp) Reply(v tq.EncoderDecoder) (int, error) { r.replies++; return 0, nil }
func (r *tqvResp) ReplyWithContext(ctx context.Context, v tq.EncoderDecoder, w ...tq.Writer) (int, error) {
	return r.Reply(v)
}
func (r *tqvResp) Write(p *tq.Packet) (int, error) { return 0, nil }
func (r *tqvResp) Next(next tq.Handler)            {}
func (r *tqvResp) RegisterWriter(tq.Writer)        {}
func (r *tqvResp) Context(ctx context.Context)     {}

// tqvLog keeps what a logger is asked to emit or retain: rendered messages, records minus
// the keys the same call lists as obscured, and the fields selected by key for retention.
type tqvLog struct{ seen []string }

func (l *tqvLog) msg(format string, args ...interface{}) {
	l.seen = append(l.seen, fmt.Sprintf(format, args...))
}
func (l *tqvLog) Infof(ctx context.Context, format string, args ...interface{}) {
	l.msg(format, args...)
}
func (l *tqvLog) Errorf(ctx context.Context, format string, args ...interface{}) {
	l.msg(format, args...)
}
func (l *tqvLog) Debugf(ctx context.Context, format string, args ...interface{}) {
	l.msg(format, args...)
}
func (l *tqvLog) Record(ctx context.Context, r map[string]string, obscure ...string) {
	hide := map[string]bool{}
	for _, k := range obscure {
		hide[k] = true
	}
	for k, v := range r {
		if !hide[k] {
			l.seen = append(l.seen, k+"="+v)
		}
	}
}
func (l *tqvLog) Set(ctx context.Context, fields map[string]string, keys ...tq.ContextKey) context.Context {
	for _, k := range keys {
		l.seen = append(l.seen, "retained "+string(k)+"="+fields[string(k)])
	}
	return ctx
}

type tqvCfg struct{}

func (tqvCfg) GetUser(user string) *config.AAA { return nil }

func TestTqvWitness(t *testing.T) {
	const token = "S3cr3t-Tqv-Token"
	body, err := tq.NewAuthenStart(
		tq.SetAuthenStartAction(tq.AuthenActionLogin), tq.SetAuthenStartPrivLvl(tq.PrivLvlUser),
		tq.SetAuthenStartType(tq.AuthenTypePAP), tq.SetAuthenStartService(tq.AuthenServiceLogin),
		tq.SetAuthenStartUser("alice"), tq.SetAuthenStartPort("tty0"), tq.SetAuthenStartRemAddr("10.0.0.1"),
		tq.SetAuthenStartData(token),
	).MarshalBinary()
	l := &tqvLog{}
	resp := &tqvResp{}
	h := NewAuthenticateStart(l, tqvCfg{})
	// minor version 0: PAP requires minor version 1, so the router does not know this START
	hdr := tq.Header{Version: tq.Version{MajorVersion: tq.MajorVersion, MinorVersion: tq.MinorVersionDefault}, Type: tq.Authenticate, SeqNo: 1, SessionID: 7}
	h.Handle(resp, tq.Request{Header: hdr, Body: body, Context: context.Background()})
	var leaks []string
	for _, s := range l.seen {
		if strings.Contains(s, token) {
			leaks = append(leaks, s)
		}
	}
	out := map[string]interface{}{
		"obligation":    "cmds/server/handlers.AuthenticateStart.Handle/pre@cmds/server/handlers.loggerProvider.Record#1.1",
		"scenario":      "PAP login START with minor version 0 (unknown to the router), password token in the data field",
		"marshal_error": fmt.Sprint(err), "replies": resp.replies, "logged_with_token": leaks, "violated": len(leaks) > 0,
	}
	b, _ := json.Marshal(out)
	fmt.Println("TQV-WITNESS " + string(b))
}
