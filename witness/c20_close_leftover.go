package tacquito

// Witness scenario for tacquito.sessions.close/post#1 (C20): close must account for the
// sessions still in the table (gauge decreases by len(known)).

import (
	"encoding/json"
	"fmt"
	"testing"

	dto "github.com/prometheus/client_model/go"
)

func tqvGauge() float64 {
	var m dto.Metric
	sessionsActive.Write(&m)
	return m.GetGauge().GetValue()
}

func TestTqvWitness(t *testing.T) {
	s := newSessionProvider()
	before := tqvGauge()
	s.set(Header{SeqNo: 1, SessionID: 9}, nil) // a session left waiting when the connection closes
	n := len(s.known)
	mid := tqvGauge()
	s.close()
	after := tqvGauge()
	out := map[string]interface{}{
		"obligation":       "tacquito.sessions.close/post#1",
		"scenario":         "set(session 9); close()",
		"gauge_before_set": before, "gauge_before_close": mid, "len_known": n, "gauge_after_close": after,
		"violated": after != mid-float64(n),
	}
	b, _ := json.Marshal(out)
	fmt.Println("TQV-WITNESS " + string(b))
}
