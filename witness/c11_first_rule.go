package stringy

// BOUNDED check (C11, command path) of the first-applying-rule semantics, which the generator
// cannot verify (rule lists are slices of structs holding slices; regular expressions are
// outside SMT). Exhaustive over: user-level rule lists of length 0..2 and group rule lists of
// length 0..1 drawn from 26 rule templates (two of them written with surrounding white space) (name in {*, show, configure} x patterns in
// {none, "running.*", "terminal|exclusive", "(bad"} x {DENY, PERMIT}), and 15 requests
// (3 commands x 5 argument lists, one with a trailing <cr>). The real path is exercised end
// to end: Authorizer.New (group rules appended after user rules) and Authorizer.Handle on an
// encoded request. Oracle written from the property text: the first rule that applies decides
// (wildcard; or name equals the command and, if it has patterns, one pattern matches the WHOLE
// argument string; an invalid pattern denies); no applying rule => FAIL.
// Second stage (138240 evaluations): two users that share their first group value (slices with
// spare capacity) and differ in their last group, authorizers built one after the other; each
// must evaluate user rules, then the rules of its own groups in order.

import (
	"context"
	"encoding/json"
	"fmt"
	"regexp"
	"strings"
	"testing"

	tq "github.com/facebookincubator/tacquito"
	"github.com/facebookincubator/tacquito/cmds/server/config"
)

type tqvResp struct {
	status tq.AuthorStatus
	n      int
}

func (r *tqvResp) Reply(v tq.EncoderDecoder) (int, error) {
	r.n++
	if ar, ok := v.(*tq.AuthorReply); ok {
		r.status = ar.Status
	}
	return 0, nil
}
func (r *tqvResp) ReplyWithContext(ctx context.Context, v tq.EncoderDecoder, w ...tq.Writer) (int, error) {
	return r.Reply(v)
}
func (r *tqvResp) Write(p *tq.Packet) (int, error) { return 0, nil }
func (r *tqvResp) Next(next tq.Handler)            {}
func (r *tqvResp) RegisterWriter(tq.Writer)        {}
func (r *tqvResp) Context(ctx context.Context)     {}

type tqvLog struct{}

func (tqvLog) Infof(ctx context.Context, format string, args ...interface{})  {}
func (tqvLog) Errorf(ctx context.Context, format string, args ...interface{}) {}
func (tqvLog) Debugf(ctx context.Context, format string, args ...interface{}) {}

type tqvRule struct {
	name   string
	match  []string
	permit bool
}

// oracle: granted?
func tqvOracle(rules []tqvRule, cmd, argstr string) bool {
	for _, r := range rules {
		applies := false
		// white space around a configured name or pattern is not part of it
		name := strings.TrimSpace(r.name)
		if name == "*" {
			applies = true
		} else if name == cmd {
			if len(r.match) == 0 {
				applies = true
			}
			for _, p := range r.match {
				p = strings.TrimSpace(p)
				if p == "" {
					continue
				}
				re, err := regexp.Compile(`\A(?:` + p + `)\z`)
				if err != nil {
					return false // invalid pattern: deny
				}
				if re.MatchString(argstr) {
					applies = true
					break
				}
			}
		}
		if applies {
			return r.permit
		}
	}
	return false
}

func TestTqvWitness(t *testing.T) {
	var templates []tqvRule
	for _, n := range []string{"*", "show", "configure"} {
		for _, m := range [][]string{nil, {"running.*"}, {"terminal|exclusive"}, {"(bad"}} {
			for _, p := range []bool{false, true} {
				templates = append(templates, tqvRule{n, m, p})
			}
		}
	}
	// two rules written with surrounding white space (as a quoted YAML scalar may be)
	templates = append(templates, tqvRule{" show ", nil, false}, tqvRule{"configure", []string{" terminal|exclusive "}, false})
	var userLists, groupLists [][]tqvRule
	userLists = append(userLists, nil)
	groupLists = append(groupLists, nil)
	for _, a := range templates {
		userLists = append(userLists, []tqvRule{a})
		groupLists = append(groupLists, []tqvRule{a})
		for _, b := range templates {
			userLists = append(userLists, []tqvRule{a, b})
		}
	}
	type req struct {
		cmd  string
		args []string
	}
	var reqs []req
	for _, c := range []string{"show", "configure", "ping"} {
		for _, a := range [][]string{nil, {"running-config"}, {"terminal"}, {"terminal", ";", "reload"}, {"running-config", "<cr>"}} {
			reqs = append(reqs, req{c, a})
		}
	}
	toCfg := func(rs []tqvRule) []config.Command {
		var out []config.Command
		for _, r := range rs {
			act := config.DENY
			if r.permit {
				act = config.PERMIT
			}
			out = append(out, config.Command{Name: r.name, Match: append([]string(nil), r.match...), Action: act})
		}
		return out
	}
	bodies := make([][]byte, len(reqs))
	argstrs := make([]string, len(reqs))
	for i, rq := range reqs {
		args := tq.Args{"service=shell", tq.Arg("cmd=" + rq.cmd)}
		var plain []string
		for j, a := range rq.args {
			args = append(args, tq.Arg("cmd-arg="+a))
			if !(j == len(rq.args)-1 && strings.ToLower(a) == "<cr>") {
				plain = append(plain, a)
			}
		}
		argstrs[i] = strings.Join(plain, " ")
		b, err := tq.NewAuthorRequest(
			tq.SetAuthorRequestMethod(tq.AuthenMethodTacacsPlus), tq.SetAuthorRequestPrivLvl(tq.PrivLvlRoot),
			tq.SetAuthorRequestType(tq.AuthenTypeASCII), tq.SetAuthorRequestService(tq.AuthenServiceLogin),
			tq.SetAuthorRequestUser("u"), tq.SetAuthorRequestPort("tty0"), tq.SetAuthorRequestRemAddr("10.0.0.1"),
			tq.SetAuthorRequestArgs(args),
		).MarshalBinary()
		if err != nil {
			t.Fatalf("encode: %v", err)
		}
		bodies[i] = b
	}
	var bad []string
	n := 0
	for _, ul := range userLists {
		for _, gl := range groupLists {
			u := config.User{Name: "u", Scopes: []string{"s"}, Commands: toCfg(ul)}
			if gl != nil {
				u.Groups = []config.Group{{Name: "g", Commands: toCfg(gl)}}
			}
			h, _ := New(tqvLog{}).New(u)
			all := append(append([]tqvRule(nil), ul...), gl...)
			for i := range reqs {
				r := &tqvResp{}
				h.Handle(r, tq.Request{Header: tq.Header{Type: tq.Authorize, SeqNo: 1}, Body: bodies[i], Context: context.Background()})
				n++
				want := tqvOracle(all, reqs[i].cmd, argstrs[i])
				got := r.status == tq.AuthorStatusPassAdd
				if (got != want || r.n != 1) && len(bad) < 4 {
					bad = append(bad, fmt.Sprintf("user rules %+v group rules %+v request cmd=%s args=%q: granted=%v want %v replies=%d", ul, gl, reqs[i].cmd, reqs[i].args, got, want, r.n))
				}
			}
		}
	}
	// second stage: authorizers are built per user; users that share group definitions (the
	// same slices, with spare capacity as a decoder may leave it) must each keep their own rule
	// order: user rules, then the rules of each of THEIR groups in order — whatever other
	// authorizers have been built before or after from the same group values.
	n2 := 0
	spare := func(rs []tqvRule) []config.Command {
		c := toCfg(rs)
		out := make([]config.Command, len(c), len(c)+8)
		copy(out, c)
		return out
	}
	for _, ul := range [][]tqvRule{nil, {{"show", []string{"running.*"}, true}}} {
		for _, base := range [][]tqvRule{{templates[1]}, {templates[8]}, {templates[11]}, {templates[16], templates[3]}, {templates[24]}, {templates[25]}} {
			baseG := config.Group{Name: "base", Commands: spare(base)}
			for _, ga := range templates {
				for _, gb := range templates {
					ua := config.User{Name: "u", Scopes: []string{"s"}, Commands: spare(ul), Groups: []config.Group{baseG, {Name: "a", Commands: spare([]tqvRule{ga})}}}
					ub := config.User{Name: "u", Scopes: []string{"s"}, Commands: spare(ul), Groups: []config.Group{baseG, {Name: "b", Commands: spare([]tqvRule{gb})}}}
					ha, _ := New(tqvLog{}).New(ua)
					hb, _ := New(tqvLog{}).New(ub)
					for k, h := range []tq.Handler{ha, hb} {
						last := ga
						if k == 1 {
							last = gb
						}
						all := append(append(append([]tqvRule(nil), ul...), base...), last)
						for i := range reqs {
							r := &tqvResp{}
							h.Handle(r, tq.Request{Header: tq.Header{Type: tq.Authorize, SeqNo: 1}, Body: bodies[i], Context: context.Background()})
							n2++
							want := tqvOracle(all, reqs[i].cmd, argstrs[i])
							got := r.status == tq.AuthorStatusPassAdd
							if (got != want || r.n != 1) && len(bad) < 4 {
								bad = append(bad, fmt.Sprintf("two users sharing group base %+v (user rules %+v); user %d has last group %+v, the other %+v; request cmd=%s args=%q: granted=%v want %v", base, ul, k+1, last, map[bool]tqvRule{true: ga, false: gb}[k == 1], reqs[i].cmd, reqs[i].args, got, want))
							}
						}
					}
				}
			}
		}
	}
	n += n2
	out := map[string]interface{}{
		"obligation":  "cmds/server/config/authorizers/stringy.CommandBasedAuthorizer.evaluate/bounded.first-rule",
		"scenario":    "exhaustive small scope: rule lists (user <= 2, group <= 1) from 26 templates x 15 requests, end to end through Authorizer.New / Handle; plus pairs of users sharing a first group (spare capacity) with 24 x 24 different last groups",
		"evaluations": n, "mismatches": bad, "violated": len(bad) > 0 || n < 500000,
	}
	b, _ := json.Marshal(out)
	fmt.Println("TQV-WITNESS " + string(b))
}
