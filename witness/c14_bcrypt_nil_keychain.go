package bcrypt

// Witness for cmds/server/config/authenticators/bcrypt.Authenticator.New/post#2 (C14): a user
// whose bcrypt options carry no hash gets a handler from the factory; a login must not crash.

import (
	"context"
	"encoding/json"
	"fmt"
	"testing"

	tq "github.com/facebookincubator/tacquito"
)

type tqvResp struct{ replies int }

func (r *tqvResp) Reply(v tq.EncoderDecoder) (int, error) { r.replies++; return 0, nil }
func (r *tqvResp) ReplyWithContext(ctx context.Context, v tq.EncoderDecoder, w ...tq.Writer) (int, error) {
	return r.Reply(v)
}
func (r *tqvResp) Write(p *tq.Packet) (int, error) { return 0, nil }
func (r *tqvResp) Next(next tq.Handler)            {}
func (r *tqvResp) RegisterWriter(tq.Writer)        {}
func (r *tqvResp) Context(ctx context.Context)     {}

type tqvLog struct{}

func (tqvLog) Infof(ctx context.Context, format string, args ...interface{})      {}
func (tqvLog) Errorf(ctx context.Context, format string, args ...interface{})     {}
func (tqvLog) Record(ctx context.Context, r map[string]string, obscure ...string) {}

type tqvKeychain struct{}

func (tqvKeychain) GetSecret(ctx context.Context, name, group string) ([]byte, error) {
	return []byte("$2a$10$abcdefghijklmnopqrstuv"), nil
}

func TestTqvWitness(t *testing.T) {
	out := map[string]interface{}{
		"obligation": "cmds/server/config/authenticators/bcrypt.Authenticator.New/post#2",
		"scenario":   "factory New(logger, keychain).New(\"alice\", options without hash), then a PAP login",
	}
	func() {
		defer func() {
			if r := recover(); r != nil {
				out["panic"] = fmt.Sprint(r)
				out["violated"] = true
			}
		}()
		h, err := New(tqvLog{}, tqvKeychain{}).New("alice", map[string]string{"group": "g"})
		out["factory_error"] = fmt.Sprint(err)
		body, _ := tq.NewAuthenStart(
			tq.SetAuthenStartAction(tq.AuthenActionLogin), tq.SetAuthenStartPrivLvl(tq.PrivLvlUser),
			tq.SetAuthenStartType(tq.AuthenTypePAP), tq.SetAuthenStartService(tq.AuthenServiceLogin),
			tq.SetAuthenStartUser("alice"), tq.SetAuthenStartPort("tty0"), tq.SetAuthenStartRemAddr("10.0.0.1"),
			tq.SetAuthenStartData("pw"),
		).MarshalBinary()
		resp := &tqvResp{}
		h.Handle(resp, tq.Request{Header: tq.Header{Type: tq.Authenticate, SeqNo: 1}, Body: body, Context: context.Background()})
		out["replies"] = resp.replies
		out["violated"] = false
	}()
	b, _ := json.Marshal(out)
	fmt.Println("TQV-WITNESS " + string(b))
}
