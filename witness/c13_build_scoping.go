package loader

// BOUNDED check (C13 / C10 / C12, configuration side) of Loader.build, which the generator cannot
// verify (maps and slices of structs, factories behind interfaces). Exhaustive over: every
// ordered selection of 1..3 secret configurations from {A, B, C}; two users, each assigned to
// any subset of {A, B, C} and carrying one of four authenticator settings (none / type with a
// working factory / type whose factory fails / type with no factory) and one of three accounter
// settings (none / type with a factory / type with no factory). 15 x 96 x 96 = 138240
// configurations, built with the real build() and the real config.Provider, fakes elsewhere.
// Oracle written from the property text:
//   * one provider per secret configuration that has at least one user, in configuration order,
//     and each hands out ITS OWN keychain entry when a connection arrives (after build() returned);
//   * a provider's user set holds exactly the users whose scopes name it — minus users whose
//     authenticator factory failed — and the user copy handed to the authorizer factory is localized to exactly that scope;
//   * a user with a working factory gets that factory's handler for that user name; a user
//     without an authenticator (or with an unknown type) gets the default-deny authenticator;
//   * a user with an accounter whose type has a factory gets that factory's handler, built from
//     that user's own options; a user without an accounter (or with an unknown type) gets the
//     default accounter that answers ERROR — whatever the other users of the scope have (C12).

import (
	"context"
	"encoding/json"
	"fmt"
	"net"
	"reflect"
	"testing"

	tq "github.com/facebookincubator/tacquito"
	"github.com/facebookincubator/tacquito/cmds/server/config"
)

type tqvLog struct{}

func (tqvLog) Infof(ctx context.Context, format string, args ...interface{})  {}
func (tqvLog) Errorf(ctx context.Context, format string, args ...interface{}) {}
func (tqvLog) Debugf(ctx context.Context, format string, args ...interface{}) {}

type tqvKeychain struct{}

func (tqvKeychain) Add(k config.Keychain) func(context.Context, string) ([]byte, error) {
	return func(context.Context, string) ([]byte, error) { return []byte(k.Key), nil }
}

type tqvScopeHandler struct{ cp config.Provider }

func (tqvScopeHandler) Handle(response tq.Response, request tq.Request) {}

type tqvHandlerFactory struct{}

func (tqvHandlerFactory) New(ctx context.Context, cp config.Provider, options map[string]string) tq.Handler {
	return &tqvScopeHandler{cp: cp}
}

type tqvSecretProvider struct {
	name   string
	h      tq.Handler
	secret func(context.Context, string) ([]byte, error)
}

func (s tqvSecretProvider) Get(ctx context.Context, remote net.Addr) ([]byte, tq.Handler, error) {
	// like the real providers: the key is resolved when a connection arrives, not at build time
	k, err := s.secret(ctx, "")
	return k, s.h, err
}

type tqvSecretProviderFactory struct{}

func (tqvSecretProviderFactory) New(ctx context.Context, sc config.SecretConfig, h tq.Handler, secret func(context.Context, string) ([]byte, error)) tq.SecretProvider {
	return tqvSecretProvider{name: sc.Name, h: h, secret: secret}
}

type tqvAuthorizerFactory struct{}
type tqvNop struct {
	tag  string
	user config.User // the copy the factory was given; read again after build() has finished
}

func (tqvNop) Handle(response tq.Response, request tq.Request) {}
func (tqvAuthorizerFactory) New(user config.User) (tq.Handler, error) {
	// the authorizer is where localization matters: remember the scope list the user copy carried
	return &tqvNop{tag: "authz:" + user.Name, user: user}, nil
}

type tqvGoodAuth struct{}

func (tqvGoodAuth) New(username string, options map[string]string) (tq.Handler, error) {
	return &tqvNop{tag: "auth:" + username}, nil
}

type tqvAcct struct{}

func (tqvAcct) New(options map[string]string) tq.Handler {
	return &tqvNop{tag: "acct:" + options["owner"]}
}

type tqvBadAuth struct{}

func (tqvBadAuth) New(username string, options map[string]string) (tq.Handler, error) {
	return nil, fmt.Errorf("cannot build")
}

func TestTqvWitness(t *testing.T) {
	ctx := context.Background()
	const good, bad, unknown = config.AuthenticatorType(1), config.AuthenticatorType(2), config.AuthenticatorType(77)
	l := Loader{
		loggerProvider: tqvLog{}, ctx: ctx, keychainProvider: tqvKeychain{}, configProvider: config.New(),
		authorizerProvider: tqvAuthorizerFactory{},
		providerTypes:      map[config.ProviderType]secretProviderFactory{config.PREFIX: tqvSecretProviderFactory{}},
		authenticatorTypes: map[config.AuthenticatorType]authenticatorFactory{good: tqvGoodAuth{}, bad: tqvBadAuth{}},
		accounterTypes:     map[config.AccounterType]accounterFactory{config.AccounterType(1): tqvAcct{}},
		handlerTypes:       map[config.HandlerType]handlerFactory{config.START: tqvHandlerFactory{}},
	}
	scopes := []string{"A", "B", "C"}
	var orders [][]string
	var rec func(cur []string, used int)
	rec = func(cur []string, used int) {
		if len(cur) > 0 {
			orders = append(orders, append([]string(nil), cur...))
		}
		for i, s := range scopes {
			if used&(1<<i) == 0 {
				rec(append(cur, s), used|1<<i)
			}
		}
	}
	rec(nil, 0)
	var bads []string
	note := func(f string, a ...interface{}) {
		if len(bads) < 4 {
			bads = append(bads, fmt.Sprintf(f, a...))
		}
	}
	n := 0
	mkUser := func(name string, mask, kind, acct int) config.User {
		u := config.User{Name: name}
		for i, s := range scopes {
			if mask&(1<<i) != 0 {
				u.Scopes = append(u.Scopes, s)
			}
		}
		switch kind {
		case 1:
			u.Authenticator = &config.Authenticator{Type: good}
		case 2:
			u.Authenticator = &config.Authenticator{Type: bad}
		case 3:
			u.Authenticator = &config.Authenticator{Type: unknown}
		}
		switch acct {
		case 1:
			u.Accounter = &config.Accounter{Type: config.AccounterType(1), Options: map[string]string{"owner": name}}
		case 2:
			u.Accounter = &config.Accounter{Type: config.AccounterType(77)}
		}
		return u
	}
	has := func(u config.User, s string) bool {
		for _, x := range u.Scopes {
			if x == s {
				return true
			}
		}
		return false
	}
	defaultAuth := reflect.TypeOf(config.NewAAA().Authenticate)
	defaultAcct := reflect.TypeOf(config.NewAAA().Accounting)
	for _, order := range orders {
		for m1 := 0; m1 < 8; m1++ {
			for k1 := 0; k1 < 4; k1++ {
				for m2 := 0; m2 < 8; m2++ {
					for k2x := 0; k2x < 36; k2x++ {
						k2, a1, a2 := k2x%4, (k2x/4)%3, k2x/12
						n++
						users := []config.User{mkUser("u1", m1, k1, a1), mkUser("u2", m2, k2, a2)}
						kinds := map[string]int{"u1": k1, "u2": k2}
						accts := map[string]int{"u1": a1, "u2": a2}
						sc := config.ServerConfig{Users: users}
						for _, s := range order {
							sc.Secrets = append(sc.Secrets, config.SecretConfig{Name: s, Secret: config.Keychain{Group: "g", Key: "key-of-" + s}, Type: config.PREFIX, Handler: config.Handler{Type: config.START}})
						}
						got := l.build(sc)
						// expected providers, in order
						var want []string
						for _, s := range order {
							cnt := 0
							for _, u := range users {
								if has(u, s) && kinds[u.Name] != 2 {
									cnt++
								}
							}
							if cnt > 0 {
								want = append(want, s)
							}
						}
						if len(got) != len(want) {
							note("secrets %v users %+v: %d providers, want %v", order, users, len(got), want)
							continue
						}
						for i, sp := range got {
							p := sp.(tqvSecretProvider)
							if p.name != want[i] {
								note("secrets %v: provider %d is %s, want %s", order, i, p.name, want[i])
								continue
							}
							if k, _, err := sp.Get(ctx, nil); err != nil || string(k) != "key-of-"+p.name {
								note("secrets %v: scope %s hands out key %q (err %v) when a connection arrives, want its own key %q", order, p.name, k, err, "key-of-"+p.name)
							}
							cp := p.h.(*tqvScopeHandler).cp
							for _, u := range users {
								aaa := cp.GetUser(u.Name)
								expect := has(u, p.name) && kinds[u.Name] != 2
								if (aaa != nil) != expect {
									note("scope %s: user %s (scopes %v, authenticator kind %d) present=%v want %v", p.name, u.Name, u.Scopes, kinds[u.Name], aaa != nil, expect)
									continue
								}
								if aaa == nil {
									continue
								}
								if h, ok := aaa.Authorizer.(*tqvNop); !ok || h.tag != "authz:"+u.Name || len(h.user.Scopes) != 1 || h.user.Scopes[0] != p.name {
									note("scope %s: user %s: the authorizer was built from a user copy %+v, want one localized to exactly [%s]", p.name, u.Name, aaa.Authorizer, p.name)
								}
								if accts[u.Name] == 1 {
									if h, ok := aaa.Accounting.(*tqvNop); !ok || h.tag != "acct:"+u.Name {
										note("scope %s: user %s has accounter %T %+v, want the factory's handler built from that user's options", p.name, u.Name, aaa.Accounting, aaa.Accounting)
									}
								} else if reflect.TypeOf(aaa.Accounting) != defaultAcct {
									note("scope %s: user %s (accounter setting %d; the other user has %v) has accounter %T, want the default accounter that answers ERROR", p.name, u.Name, accts[u.Name], accts, aaa.Accounting)
								}
								switch kinds[u.Name] {
								case 1:
									if h, ok := aaa.Authenticate.(*tqvNop); !ok || h.tag != "auth:"+u.Name {
										note("scope %s: user %s has authenticator %T %+v, want the factory's handler for that user", p.name, u.Name, aaa.Authenticate, aaa.Authenticate)
									}
								default:
									if reflect.TypeOf(aaa.Authenticate) != defaultAuth {
										note("scope %s: user %s without a usable authenticator has %T, want the default-deny authenticator", p.name, u.Name, aaa.Authenticate)
									}
								}
							}
						}
					}
				}
			}
		}
	}
	out := map[string]interface{}{
		"obligation":     "cmds/server/loader.Loader.build/bounded.scoping",
		"scenario":       "exhaustive: ordered selections of 1..3 scopes x 2 users x scope subsets x 4 authenticator settings x 3 accounter settings, real build() and config.Provider",
		"configurations": n, "mismatches": bads, "violated": len(bads) > 0 || n != 138240,
	}
	b, _ := json.Marshal(out)
	fmt.Println("TQV-WITNESS " + string(b))
}
