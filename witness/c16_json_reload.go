package json

// Witness for cmds/server/loader/json.JSON.Unmarshal/pre@encoding/json.Unmarshal#1.1 (C16):
// document A has users [admin (permit *), x]; document B has users [guest]; after A then B the
// published configuration must equal what a fresh loader publishes for B.

import (
	stdjson "encoding/json"
	"fmt"
	"reflect"
	"testing"
)

const tqvA = `{"secrets":[{"name":"s1","secret":{"key":"k"}}],
 "users":[{"name":"admin","scopes":["s1"],"commands":[{"name":"*","action":2}]},{"name":"x","scopes":["s1"]}]}`
const tqvB = `{"secrets":[{"name":"s1","secret":{"key":"k"}}],"users":[{"name":"guest","scopes":["s1"]}]}`

func TestTqvWitness(t *testing.T) {
	reloaded := New()
	errA := reloaded.Unmarshal([]byte(tqvA))
	if errA != nil {
		fmt.Println("TQV-WITNESS {\"violated\": false, \"note\": \"document A did not load\"}", errA)
		return
	}
	<-reloaded.Config()
	errB := reloaded.Unmarshal([]byte(tqvB))
	if errB != nil {
		fmt.Println("TQV-WITNESS {\"violated\": false, \"note\": \"document B did not load\"}", errB)
		return
	}
	got := <-reloaded.Config()
	fresh := New()
	_ = fresh.Unmarshal([]byte(tqvB))
	want := <-fresh.Config()
	ncmd := -1
	if len(got.Users) > 0 {
		ncmd = len(got.Users[0].Commands)
	}
	out := map[string]interface{}{
		"obligation": "cmds/server/loader/json.JSON.Unmarshal/pre@encoding/json.Unmarshal#1.1",
		"scenario":   "load A (admin with permit *), then B (guest), compare with a fresh loader given B",
		"error_B":    fmt.Sprint(errB), "guest_commands_after_reload": ncmd, "users_after_reload": len(got.Users),
		"violated": !reflect.DeepEqual(got, want),
	}
	b, _ := stdjson.Marshal(out)
	fmt.Println("TQV-WITNESS " + string(b))
}
