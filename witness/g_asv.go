package tacquito

// Generic witness scenario for Arg.ASV (C11 / C14): exhaustive over all strings of length <= 5
// over the alphabet {a, =, *, space}: the split is at the first '=' or '*' of the trimmed text,
// whichever comes first; attribute + separator + value reassemble the trimmed text; no
// separator gives three empty strings. The oracle is written independently of strings.IndexAny.

import (
	"encoding/json"
	"fmt"
	"strings"
	"testing"
)

func TestTqvWitness(t *testing.T) {
	var bad []string
	alpha := []byte{'a', '=', '*', ' '}
	var gen func(prefix []byte, n int)
	check := func(raw string) {
		s := strings.TrimSpace(raw)
		cut := -1
		for i := 0; i < len(s); i++ {
			if s[i] == '=' || s[i] == '*' {
				cut = i
				break
			}
		}
		wa, ws, wv := "", "", ""
		if cut >= 0 {
			wa, ws, wv = s[:cut], s[cut:cut+1], s[cut+1:]
		}
		a, sep, v := Arg(raw).ASV()
		if a != wa || sep != ws || v != wv {
			if len(bad) < 8 {
				bad = append(bad, fmt.Sprintf("Arg(%q).ASV() = (%q, %q, %q), want (%q, %q, %q)", raw, a, sep, v, wa, ws, wv))
			}
		}
	}
	gen = func(prefix []byte, n int) {
		check(string(prefix))
		if n == 0 {
			return
		}
		for _, c := range alpha {
			gen(append(append([]byte(nil), prefix...), c), n-1)
		}
	}
	gen(nil, 5)
	for _, raw := range []string{"cmd-arg*replace=flash:cfg", "cmd-arg=a*b", "service=shell", "priv-lvl*15", "cmd="} {
		check(raw)
	}
	out := map[string]interface{}{"obligation": "tacquito.Arg.ASV", "scenario": "all strings of length <= 5 over {a,=,*,space} and five realistic arguments", "mismatches": bad, "violated": len(bad) > 0}
	b, _ := json.Marshal(out)
	fmt.Println("TQV-WITNESS " + string(b))
}
