package tacquito

// Generic witness scenario for the post-conditions of response.Reply (C06): the reply header
// mirrors the request (version, type, flags, session id), is numbered request+1 (1 for a
// RESTART), nothing is written for request 255, and the length field equals the body length;
// the body de-obfuscates under the request's session id. Table over sequence numbers, flags,
// session ids (0 and 0xffffffff included), packet types and reply bodies.

import (
	"bytes"
	"context"
	"crypto/md5"
	"encoding/binary"
	"encoding/json"
	"fmt"
	"net"
	"testing"
	"time"
)

type tqvConn struct{ out bytes.Buffer }

func (c *tqvConn) Read(b []byte) (int, error)         { return 0, fmt.Errorf("no input") }
func (c *tqvConn) Write(b []byte) (int, error)        { return c.out.Write(b) }
func (c *tqvConn) Close() error                       { return nil }
func (c *tqvConn) LocalAddr() net.Addr                { return &net.TCPAddr{IP: net.IPv4(127, 0, 0, 1), Port: 49} }
func (c *tqvConn) RemoteAddr() net.Addr               { return &net.TCPAddr{IP: net.IPv4(127, 0, 0, 1), Port: 4949} }
func (c *tqvConn) SetDeadline(t time.Time) error      { return nil }
func (c *tqvConn) SetReadDeadline(t time.Time) error  { return nil }
func (c *tqvConn) SetWriteDeadline(t time.Time) error { return nil }

type tqvLogger struct{}

func (tqvLogger) Infof(ctx context.Context, format string, args ...interface{})      {}
func (tqvLogger) Errorf(ctx context.Context, format string, args ...interface{})     {}
func (tqvLogger) Debugf(ctx context.Context, format string, args ...interface{})     {}
func (tqvLogger) Record(ctx context.Context, r map[string]string, obscure ...string) {}

// independent RFC 8907 4.5 pad
func tqvPad(secret []byte, sid uint32, ver, seq byte, n int) []byte {
	var pad, prev []byte
	for len(pad) < n {
		h := md5.New()
		var s [4]byte
		binary.BigEndian.PutUint32(s[:], sid)
		h.Write(s[:])
		h.Write(secret)
		h.Write([]byte{ver, seq})
		h.Write(prev)
		prev = h.Sum(nil)
		pad = append(pad, prev...)
	}
	return pad[:n]
}

func tqvLen3(b []byte) int {
	if len(b) < 3 {
		return len(b)
	}
	return 3
}

func TestTqvWitness(t *testing.T) {
	secret := []byte("tqv-secret")
	var bad []string
	n := 0
	for _, seq := range []int{1, 3, 127, 253, 255} {
		for _, flags := range []HeaderFlag{0, UnencryptedFlag, SingleConnect} {
			for _, sid := range []SessionID{0, 1, 0x01020304, 0xffffffff} {
				for _, typ := range []HeaderType{Authenticate, Authorize, Accounting} {
					for _, rm := range []int{0, 1, 2, 3} {
						restart, minor := rm&1 == 1, uint8(MinorVersionDefault)
						if rm&2 == 2 {
							minor = uint8(MinorVersionOne)
						}
						if restart && typ != Authenticate {
							continue
						}
						n++
						conn := &tqvConn{}
						ver := Version{MajorVersion: MajorVersion, MinorVersion: minor}
						req := Header{Version: ver, Type: typ, SeqNo: SequenceNumber(seq), Flags: flags, SessionID: sid}
						r := &response{ctx: context.Background(), crypter: newCrypter(secret, conn, false), loggerProvider: tqvLogger{}, header: req}
						var body EncoderDecoder
						switch {
						case restart:
							body = NewAuthenReply(SetAuthenReplyStatus(AuthenStatusRestart))
						case typ == Authenticate:
							body = NewAuthenReply(SetAuthenReplyStatus(AuthenStatusFail), SetAuthenReplyServerMsg("no"))
						case typ == Authorize:
							body = NewAuthorReply(SetAuthorReplyStatus(AuthorStatusFail), SetAuthorReplyServerMsg("no"))
						default:
							body = NewAcctReply(SetAcctReplyStatus(AcctReplyStatusError), SetAcctReplyServerMsg("no"))
						}
						clear, _ := body.MarshalBinary()
						_, err := r.Reply(body)
						got := conn.out.Bytes()
						wantSeq := seq + 1
						if restart {
							wantSeq = 1
						}
						desc := fmt.Sprintf("request version=%d.%d seq=%d flags=%d session=%#x type=%d restart=%v", ver.MajorVersion, ver.MinorVersion, seq, flags, uint32(sid), typ, restart)
						add := func(f string, a ...interface{}) {
							if len(bad) < 5 {
								bad = append(bad, desc+": "+fmt.Sprintf(f, a...))
							}
						}
						if wantSeq > 255 {
							if len(got) != 0 || err == nil {
								add("a reply numbered %d cannot exist: wrote %d bytes, err=%v", wantSeq, len(got), err)
							}
							if int(r.header.SeqNo) < seq {
								add("after the refused reply the response remembers sequence number %d for a session that had reached %d: the session's sequence space starts over", r.header.SeqNo, seq)
							}
							continue
						}
						if err != nil || len(got) < 12 {
							add("no reply written (err=%v, %d bytes)", err, len(got))
							continue
						}
						if got[0] != byte(ver.MajorVersion)<<4|byte(ver.MinorVersion) || HeaderType(got[1]) != typ || int(got[2]) != wantSeq || HeaderFlag(got[3]) != flags || binary.BigEndian.Uint32(got[4:]) != uint32(sid) {
							add("reply header % x does not mirror the request (want seq %d)", got[:12], wantSeq)
							continue
						}
						if int(binary.BigEndian.Uint32(got[8:])) != len(got)-12 {
							add("length field %d, body %d bytes", binary.BigEndian.Uint32(got[8:]), len(got)-12)
							continue
						}
						dec := append([]byte(nil), got[12:]...)
						if flags&UnencryptedFlag == 0 {
							for i, p := range tqvPad(secret, uint32(sid), got[0], got[2], len(dec)) {
								dec[i] ^= p
							}
						}
						if !bytes.Equal(dec, clear) {
							add("body does not de-obfuscate under the request's session id and the reply's sequence number")
						}
					}
				}
			}
		}
	}
	// a reply whose body cannot be encoded sends nothing and must not disturb the numbering
	// of the reply that follows for the same request
	for _, seq := range []int{1, 7, 253} {
		conn := &tqvConn{}
		ver := Version{MajorVersion: MajorVersion, MinorVersion: MinorVersionDefault}
		req := Header{Version: ver, Type: Authorize, SeqNo: SequenceNumber(seq), SessionID: 99}
		r := &response{ctx: context.Background(), crypter: newCrypter(secret, conn, false), loggerProvider: tqvLogger{}, header: req}
		long := make([]byte, 300)
		for i := range long {
			long[i] = 'a'
		}
		if _, err := r.Reply(NewAuthorReply(SetAuthorReplyStatus(AuthorStatusPassAdd), SetAuthorReplyArgs("x="+string(long)))); err == nil || conn.out.Len() != 0 {
			bad = append(bad, fmt.Sprintf("request %d: an unencodable reply was written (%d bytes, err %v)", seq, conn.out.Len(), err))
		}
		r.Reply(NewAuthorReply(SetAuthorReplyStatus(AuthorStatusError), SetAuthorReplyServerMsg("no")))
		if got := conn.out.Bytes(); len(got) < 12 || int(got[2]) != seq+1 {
			bad = append(bad, fmt.Sprintf("request %d: the reply after a failed reply is numbered %v, want %d", seq, got[:tqvLen3(got)], seq+1))
		}
	}
	out := map[string]interface{}{"obligation": "tacquito.response.Reply/post*", "scenario": "table of requests x reply bodies through the real response.Reply over a capturing connection",
		"cases": n, "mismatches": bad, "violated": len(bad) > 0}
	b, _ := json.Marshal(out)
	fmt.Println("TQV-WITNESS " + string(b))
}
