package stringy

// Witness for cmds/server/config/authorizers/stringy.Authorizer.Handle/post#1 (C07):
// an authorizer built for user alice receives an authorization request naming bob:
// the handler must reply exactly once.

import (
	"context"
	"encoding/json"
	"fmt"
	"testing"

	tq "github.com/facebookincubator/tacquito"
	"github.com/facebookincubator/tacquito/cmds/server/config"
)

type tqvResp struct {
	replies  int
	statuses []string
}

func (r *tqvResp) Reply(v tq.EncoderDecoder) (int, error) {
	r.replies++
	if ar, ok := v.(*tq.AuthorReply); ok {
		r.statuses = append(r.statuses, ar.Status.String())
	}
	return 0, nil
}
func (r *tqvResp) ReplyWithContext(ctx context.Context, v tq.EncoderDecoder, w ...tq.Writer) (int, error) {
	return r.Reply(v)
}
func (r *tqvResp) Write(p *tq.Packet) (int, error) { return 0, nil }
func (r *tqvResp) Next(next tq.Handler)            {}
func (r *tqvResp) RegisterWriter(tq.Writer)        {}
func (r *tqvResp) Context(ctx context.Context)     {}

type tqvLog struct{}

func (tqvLog) Infof(ctx context.Context, format string, args ...interface{})  {}
func (tqvLog) Errorf(ctx context.Context, format string, args ...interface{}) {}
func (tqvLog) Debugf(ctx context.Context, format string, args ...interface{}) {}

func TestTqvWitness(t *testing.T) {
	h, _ := New(tqvLog{}).New(config.User{Name: "alice"})
	body, err := tq.NewAuthorRequest(
		tq.SetAuthorRequestMethod(tq.AuthenMethodTacacsPlus), tq.SetAuthorRequestPrivLvl(tq.PrivLvlUser),
		tq.SetAuthorRequestType(tq.AuthenTypeASCII), tq.SetAuthorRequestService(tq.AuthenServiceLogin),
		tq.SetAuthorRequestUser("bob"), tq.SetAuthorRequestPort("tty0"), tq.SetAuthorRequestRemAddr("10.0.0.1"),
		tq.SetAuthorRequestArgs(tq.Args{"service=shell", "cmd=show"}),
	).MarshalBinary()
	resp := &tqvResp{}
	h.Handle(resp, tq.Request{Header: tq.Header{Type: tq.Authorize, SeqNo: 1}, Body: body, Context: context.Background()})
	out := map[string]interface{}{
		"obligation": "cmds/server/config/authorizers/stringy.Authorizer.Handle/post#1",
		"scenario":   "authorizer for alice, request for bob", "marshal_error": fmt.Sprint(err),
		"replies": resp.replies, "statuses": resp.statuses, "violated": resp.replies != 1,
	}
	b, _ := json.Marshal(out)
	fmt.Println("TQV-WITNESS " + string(b))
}
