package loader

// Generic witness scenario for the loader's consumer loop and admission path (C13 / C16):
// a sequence of four configurations is pushed through ONE loader (real NewLoader, real prefix
// secret provider, keychain and config.Provider; fake handler / authorizer factories); after
// each, the answers of Loader.Get for a set of addresses — refused or not, the secret, and
// which users exist for the connection — must equal those of a FRESH loader that has only
// seen that configuration. The sequence rotates a key, removes a scope, removes a prefix,
// drops a user, and adds then removes deny / allow lists.

import (
	"context"
	"encoding/json"
	"fmt"
	"net"
	"sort"
	"testing"
	"time"

	tq "github.com/facebookincubator/tacquito"
	"github.com/facebookincubator/tacquito/cmds/server/config"
	"github.com/facebookincubator/tacquito/cmds/server/config/secret"
	"github.com/facebookincubator/tacquito/cmds/server/config/secret/prefix"
)

type tqvLog struct{}

func (tqvLog) Infof(ctx context.Context, format string, args ...interface{})      {}
func (tqvLog) Errorf(ctx context.Context, format string, args ...interface{})     {}
func (tqvLog) Debugf(ctx context.Context, format string, args ...interface{})     {}
func (tqvLog) Record(ctx context.Context, r map[string]string, obscure ...string) {}

type tqvSource struct{ ch chan config.ServerConfig }

func (s tqvSource) Config() chan config.ServerConfig { return s.ch }

type tqvScopeHandler struct{ users config.Provider }

var tqvLast *tqvScopeHandler

func (s *tqvScopeHandler) Handle(response tq.Response, request tq.Request) { tqvLast = s }

type tqvHandlerFactory struct{}

func (tqvHandlerFactory) New(ctx context.Context, cp config.Provider, options map[string]string) tq.Handler {
	return &tqvScopeHandler{users: cp}
}

type tqvAuthorizerFactory struct{}

func (tqvAuthorizerFactory) New(user config.User) (tq.Handler, error) { return &tqvScopeHandler{}, nil }

func tqvScope(name, key, prefixes string) config.SecretConfig {
	return config.SecretConfig{Name: name, Secret: config.Keychain{Group: "tacquito", Key: key}, Handler: config.Handler{Type: config.START},
		Type: config.PREFIX, Options: map[string]string{"prefixes": prefixes}}
}

func tqvNewLoader(ctx context.Context) (*Loader, tqvSource, error) {
	src := tqvSource{ch: make(chan config.ServerConfig)}
	l, err := NewLoader(ctx, src, SetLoggerProvider(tqvLog{}), SetKeychainProvider(secret.New()), SetConfigProvider(config.New()),
		SetAuthorizerProvider(tqvAuthorizerFactory{}), RegisterSecretProviderType(config.PREFIX, prefix.New(tqvLog{})), RegisterHandlerType(config.START, tqvHandlerFactory{}))
	return l, src, err
}

func tqvObserve(ctx context.Context, l *Loader, addrs []string, users []string) []string {
	var out []string
	for _, a := range addrs {
		s, h, err := l.Get(ctx, &net.TCPAddr{IP: net.ParseIP(a), Port: 40000})
		if err != nil || s == nil || h == nil {
			out = append(out, a+": refused")
			continue
		}
		tqvLast = nil
		h.Handle(nil, tq.Request{})
		var seen []string
		if tqvLast != nil {
			for _, u := range users {
				if tqvLast.users.GetUser(u) != nil {
					seen = append(seen, u)
				}
			}
		}
		sort.Strings(seen)
		out = append(out, fmt.Sprintf("%s: key=%s users=%v", a, s, seen))
	}
	return out
}

func TestTqvWitness(t *testing.T) {
	ctx, cancel := context.WithCancel(context.Background())
	defer cancel()
	configs := []config.ServerConfig{
		{Secrets: []config.SecretConfig{tqvScope("lab", "lab-key-1", `["10.0.0.0/8"]`), tqvScope("edge", "edge-key", `["192.168.0.0/16","172.16.0.0/12"]`)},
			Users:      []config.User{{Name: "alice", Scopes: []string{"lab", "edge"}}, {Name: "mallory", Scopes: []string{"lab"}}},
			PrefixDeny: []string{"10.66.0.0/16"}},
		{Secrets: []config.SecretConfig{tqvScope("lab", "lab-key-2", `["10.0.0.0/8"]`)},
			Users: []config.User{{Name: "alice", Scopes: []string{"lab"}}}},
		{Secrets: []config.SecretConfig{tqvScope("edge", "edge-key-2", `["192.168.0.0/16"]`), tqvScope("lab", "lab-key-2", `["10.0.0.0/8"]`)},
			Users:       []config.User{{Name: "alice", Scopes: []string{"lab"}}, {Name: "bob", Scopes: []string{"edge"}}},
			PrefixAllow: []string{"10.0.0.0/8", "192.168.0.0/16"}},
		{Secrets: []config.SecretConfig{tqvScope("edge", "edge-key-2", `["192.168.0.0/16"]`)},
			Users: []config.User{{Name: "bob", Scopes: []string{"edge"}}}},
	}
	addrs := []string{"10.1.2.3", "10.66.1.1", "192.168.7.7", "172.16.5.5", "203.0.113.9"}
	users := []string{"alice", "bob", "mallory"}
	var bad []string
	l, src, err := tqvNewLoader(ctx)
	if err != nil {
		t.Fatalf("NewLoader: %v", err)
	}
	for i, c := range configs {
		src.ch <- c
		if i == 0 {
			l.BlockUntilLoaded()
		}
		time.Sleep(20 * time.Millisecond) // the loop applies a configuration before it serves the next query
		got := tqvObserve(ctx, l, addrs, users)
		fl, fsrc, err := tqvNewLoader(ctx)
		if err != nil {
			t.Fatalf("NewLoader: %v", err)
		}
		fsrc.ch <- c
		fl.BlockUntilLoaded()
		time.Sleep(20 * time.Millisecond)
		want := tqvObserve(ctx, fl, addrs, users)
		if fmt.Sprint(got) != fmt.Sprint(want) && len(bad) < 4 {
			bad = append(bad, fmt.Sprintf("after configuration %d the reloaded loader answers %v, a fresh loader on the same configuration answers %v", i+1, got, want))
		}
	}
	out := map[string]interface{}{"obligation": "cmds/server/loader.Loader.updates/*", "scenario": "four configurations through one loader, compared with a fresh loader after each",
		"mismatches": bad, "violated": len(bad) > 0}
	b, _ := json.Marshal(out)
	fmt.Println("TQV-WITNESS " + string(b))
}
