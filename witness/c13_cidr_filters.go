package loader

// BOUNDED check (C13) of what the contracts leave to package net: which addresses a prefix
// list contains. The real prefixFilter (deny / allow) is compared with an independent oracle
// built on net/netip for every subset (size 0..2) of six prefixes (IPv4 and IPv6, /8 … /128)
// and, per prefix, its first and last address, the addresses just outside, each IPv4 address
// in 4-byte and in IPv4-mapped 16-byte form, plus a non-TCP address.
// Oracle: deny = list non-empty and (not a TCP address or some prefix contains the unmapped
// address); allow = list empty or (TCP address and some prefix contains it).

import (
	"encoding/json"
	"fmt"
	"net"
	"net/netip"
	"testing"
)

func TestTqvWitness(t *testing.T) {
	prefixes := []string{"10.66.0.0/16", "192.0.2.128/25", "0.0.0.0/0", "2001:db8::/32", "::1/128", "fe80::/10"}
	var addrs []netip.Addr
	for _, p := range prefixes {
		pf := netip.MustParsePrefix(p)
		first := pf.Masked().Addr()
		last := first
		// last address of the prefix
		b := first.AsSlice()
		for i := pf.Bits(); i < len(b)*8; i++ {
			b[i/8] |= 1 << (7 - uint(i%8))
		}
		last, _ = netip.AddrFromSlice(b)
		addrs = append(addrs, first, last)
		if prev := first.Prev(); prev.IsValid() {
			addrs = append(addrs, prev)
		}
		if next := last.Next(); next.IsValid() {
			addrs = append(addrs, next)
		}
	}
	addrs = append(addrs, netip.MustParseAddr("10.66.1.2"), netip.MustParseAddr("203.0.113.9"), netip.MustParseAddr("2001:db8:1::5"))
	type remote struct {
		a    net.Addr
		ip   netip.Addr
		tcp  bool
		desc string
	}
	var remotes []remote
	for _, a := range addrs {
		if a.Is4() {
			b4 := a.As4()
			remotes = append(remotes, remote{&net.TCPAddr{IP: net.IP(b4[:]), Port: 49}, a, true, a.String() + " (4 bytes)"})
			remotes = append(remotes, remote{&net.TCPAddr{IP: net.IP(b4[:]).To16(), Port: 49}, a, true, a.String() + " (v4-mapped, 16 bytes)"})
		} else {
			b16 := a.As16()
			remotes = append(remotes, remote{&net.TCPAddr{IP: net.IP(b16[:]), Port: 49}, a, true, a.String()})
		}
	}
	remotes = append(remotes, remote{&net.UnixAddr{Name: "/tmp/x", Net: "unix"}, netip.Addr{}, false, "unix socket address"})
	var lists [][]string
	lists = append(lists, nil)
	for i, p := range prefixes {
		lists = append(lists, []string{p})
		for _, q := range prefixes[i+1:] {
			lists = append(lists, []string{p, q})
		}
	}
	var bad []string
	n := 0
	for _, l := range lists {
		f := newPrefixFilter(strToIPNet(l))
		for _, r := range remotes {
			contains := false
			for _, p := range l {
				if r.tcp && netip.MustParsePrefix(p).Contains(r.ip.Unmap()) {
					contains = true
				}
			}
			wantDeny := len(l) > 0 && (!r.tcp || contains)
			wantAllow := len(l) == 0 || (r.tcp && contains)
			n++
			if got := f.deny(r.a); got != wantDeny && len(bad) < 4 {
				bad = append(bad, fmt.Sprintf("deny list %v, remote %s: deny=%v want %v", l, r.desc, got, wantDeny))
			}
			if got := f.allow(r.a); got != wantAllow && len(bad) < 4 {
				bad = append(bad, fmt.Sprintf("allow list %v, remote %s: allow=%v want %v", l, r.desc, got, wantAllow))
			}
		}
	}
	out := map[string]interface{}{
		"obligation": "cmds/server/loader.prefixFilter/bounded.cidr",
		"scenario":   "prefix lists of size 0..2 over six IPv4/IPv6 prefixes x boundary addresses (4-byte, v4-mapped, v6, non-TCP) against a net/netip oracle",
		"cases":      n, "mismatches": bad, "violated": len(bad) > 0 || n < 500,
	}
	b, _ := json.Marshal(out)
	fmt.Println("TQV-WITNESS " + string(b))
}
