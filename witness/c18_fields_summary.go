package tacquito

// Bounded probe of the assumed key summary of Request.Fields (C18):
//   START bodies: the data field's bytes appear only under the key "data";
//   CONTINUE bodies: the user message's bytes appear only under
//   "user", "port", "rem-addr", "data", "user-msg".
// 4000 pseudo-random bodies per kind (fixed seed), plus long-message cases that also parse
// as a START. Bounded: a test, not a proof.

import (
	"context"
	"encoding/json"
	"fmt"
	"math/rand"
	"strings"
	"testing"
)

func TestTqvWitness(t *testing.T) {
	rng := rand.New(rand.NewSource(20260101))
	const token = "Zq9-tqv-secret-Zq9"
	allowedStart := map[string]bool{"data": true}
	allowedCont := map[string]bool{"user": true, "port": true, "rem-addr": true, "data": true, "user-msg": true}
	var bad []string
	check := func(kind string, body []byte, allowed map[string]bool) {
		r := Request{Header: Header{Type: Authenticate}, Body: body, Context: context.Background()}
		for k, v := range r.Fields(ContextUser, ContextRemoteAddr) {
			if strings.Contains(v, token) && !allowed[k] && len(bad) < 5 {
				bad = append(bad, fmt.Sprintf("%s body: token under key %q", kind, k))
			}
		}
	}
	rs := func(n int) string {
		b := make([]byte, rng.Intn(n))
		for i := range b {
			b[i] = byte('a' + rng.Intn(26))
		}
		return string(b)
	}
	n := 0
	for i := 0; i < 4000; i++ {
		as := NewAuthenStart(
			SetAuthenStartAction(AuthenAction(1+rng.Intn(3))), SetAuthenStartPrivLvl(PrivLvl(rng.Intn(16))),
			SetAuthenStartType(AuthenType(1+rng.Intn(6))), SetAuthenStartService(AuthenService(rng.Intn(10))),
			SetAuthenStartUser(AuthenUser(rs(12))), SetAuthenStartPort(AuthenPort(rs(8))), SetAuthenStartRemAddr(AuthenRemAddr(rs(16))),
			SetAuthenStartData(AuthenData(rs(6)+token+rs(6))),
		)
		if b, err := as.MarshalBinary(); err == nil {
			check("START", b, allowedStart)
			n++
		}
		pad := ""
		if i%4 == 0 {
			// long user message: the high length octet makes the body parse as a START as well
			pad = strings.Repeat("x", 256*(1+rng.Intn(3))+rng.Intn(200))
		}
		ac := NewAuthenContinue(SetAuthenContinueUserMessage(AuthenUserMessage(rs(6)+token+pad)), SetAuthenContinueData(AuthenData(rs(4))))
		if b, err := ac.MarshalBinary(); err == nil {
			check("CONTINUE", b, allowedCont)
			n++
		}
	}
	out := map[string]interface{}{
		"obligation": "tacquito.Request.Fields/assumed.taintkeys",
		"scenario":   "random START / CONTINUE bodies carrying a token in the secret-bearing field; Fields() searched for the token",
		"bodies":     n, "token_outside_summary": bad, "violated": len(bad) > 0 || n < 4000,
	}
	b, _ := json.Marshal(out)
	fmt.Println("TQV-WITNESS " + string(b))
}
