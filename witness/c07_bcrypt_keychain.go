package bcrypt

// Witness for cmds/server/config/authenticators/bcrypt.Authenticator.Handle/post#1 (C07):
// a user without a configured hash, keychain lookup fails: the handler must reply exactly once.

import (
	"context"
	"encoding/json"
	"fmt"
	"testing"

	tq "github.com/facebookincubator/tacquito"
)

type tqvResp struct {
	replies  int
	statuses []string
}

func (r *tqvResp) Reply(v tq.EncoderDecoder) (int, error) {
	r.replies++
	if ar, ok := v.(*tq.AuthenReply); ok {
		r.statuses = append(r.statuses, ar.Status.String())
	}
	return 0, nil
}
func (r *tqvResp) ReplyWithContext(ctx context.Context, v tq.EncoderDecoder, w ...tq.Writer) (int, error) {
	return r.Reply(v)
}
func (r *tqvResp) Write(p *tq.Packet) (int, error) { return 0, nil }
func (r *tqvResp) Next(next tq.Handler)            {}
func (r *tqvResp) RegisterWriter(tq.Writer)        {}
func (r *tqvResp) Context(ctx context.Context)     {}

type tqvLog struct{}

func (tqvLog) Infof(ctx context.Context, format string, args ...interface{})      {}
func (tqvLog) Errorf(ctx context.Context, format string, args ...interface{})     {}
func (tqvLog) Record(ctx context.Context, r map[string]string, obscure ...string) {}

type tqvKeychain struct{}

func (tqvKeychain) GetSecret(ctx context.Context, name, group string) ([]byte, error) {
	return nil, fmt.Errorf("keychain unavailable")
}

func TestTqvWitness(t *testing.T) {
	a := Authenticator{loggerProvider: tqvLog{}, username: "alice", supportedOptions: supportedOptions{key: "alice"}, getSecret: tqvKeychain{}}
	body, err := tq.NewAuthenStart(
		tq.SetAuthenStartAction(tq.AuthenActionLogin), tq.SetAuthenStartPrivLvl(tq.PrivLvlUser),
		tq.SetAuthenStartType(tq.AuthenTypePAP), tq.SetAuthenStartService(tq.AuthenServiceLogin),
		tq.SetAuthenStartUser("alice"), tq.SetAuthenStartPort("tty0"), tq.SetAuthenStartRemAddr("10.0.0.1"),
		tq.SetAuthenStartData("pw"),
	).MarshalBinary()
	resp := &tqvResp{}
	a.Handle(resp, tq.Request{Header: tq.Header{Type: tq.Authenticate, SeqNo: 1}, Body: body, Context: context.Background()})
	out := map[string]interface{}{
		"obligation": "cmds/server/config/authenticators/bcrypt.Authenticator.Handle/post#1",
		"scenario":   "no hash configured, keychain lookup returns an error", "marshal_error": fmt.Sprint(err),
		"replies": resp.replies, "statuses": resp.statuses, "violated": resp.replies != 1,
	}
	b, _ := json.Marshal(out)
	fmt.Println("TQV-WITNESS " + string(b))
}
