#!/bin/bash
# run_all_clean.sh: every witness scenario / probe must report violated=false on the unchanged tree.
export GOFLAGS=-mod=mod GOPROXY=off GOSUMDB=off GOTOOLCHAIN=local
cd /repo || exit 2
python3 - <<'PY' > /tmp/tqv_wlist.txt
import json
seen=set()
for w in json.load(open('/verif/witness/index.json')):
    k=(w['file'],w.get('pkgdir',''))
    if k in seen: continue
    seen.add(k); print(w['file'], w.get('pkgdir','') or '.')
PY
rc=0
while read f pkg; do
  t=/repo/$pkg/zz_tqv_witness_test.go
  echo "{\"Replace\":{\"$t\":\"/verif/witness/$f\"}}" > /tmp/tqv_wov.json
  out=$(go test -overlay /tmp/tqv_wov.json -vet=off -count=1 -timeout 120s -run '^TestTqvWitness$' -v ./$pkg 2>&1 | grep "^TQV-WITNESS" | head -1)
  case "$out" in
    *'"violated":false'*) echo "ok   $f";;
    *) echo "BAD  $f: ${out:0:300}"; rc=1;;
  esac
done < /tmp/tqv_wlist.txt
rm -f /tmp/tqv_wlist.txt /tmp/tqv_wov.json
exit $rc
