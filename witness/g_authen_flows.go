package handlers

// Generic witness scenario for the authentication handlers (C07 / C10 / C14 / C18): scripted
// PAP and ASCII logins driven through AuthenticateStart with a capturing response and logger.
// Checked for every script: exactly one reply per request and no panic; PASS only when the
// session's user exists and the presented password is that user's (a fake authenticator that
// compares the password of the packet it is handed); aborted, empty-password, unknown-user,
// unrouted (CHAP, wrong minor version) and malformed steps never PASS; the password token
// never reaches the logger (rendered messages, records minus obscured keys, retained fields).

import (
	"context"
	"encoding/json"
	"fmt"
	"strings"
	"testing"

	tq "github.com/facebookincubator/tacquito"
	"github.com/facebookincubator/tacquito/cmds/server/config"
)

const tqvToken = "S3cr3t-Tqv-T0ken"

type tqvResp struct {
	replies []string
	next    tq.Handler
	writers []tq.Writer
	ctx     context.Context
	hdr     tq.Header
}

func (r *tqvResp) Reply(v tq.EncoderDecoder) (int, error) {
	st := fmt.Sprintf("%T", v)
	if ar, ok := v.(*tq.AuthenReply); ok {
		st = ar.Status.String()
	}
	r.replies = append(r.replies, st)
	// hand the reply to the registered log writers the way the real response does
	if b, err := v.MarshalBinary(); err == nil {
		h := r.hdr
		h.SeqNo++
		p := tq.NewPacket(tq.SetPacketHeader(&h), tq.SetPacketBody(b))
		if pb, err := p.MarshalBinary(); err == nil {
			for _, w := range r.writers {
				w.Write(r.ctx, pb)
			}
		}
	}
	return 0, nil
}
func (r *tqvResp) ReplyWithContext(ctx context.Context, v tq.EncoderDecoder, w ...tq.Writer) (int, error) {
	r.ctx = ctx
	for _, x := range w {
		if x != nil {
			r.writers = append(r.writers, x)
		}
	}
	return r.Reply(v)
}
func (r *tqvResp) Write(p *tq.Packet) (int, error) { return 0, nil }
func (r *tqvResp) Next(next tq.Handler)            { r.next = next }
func (r *tqvResp) RegisterWriter(w tq.Writer)      { r.writers = append(r.writers, w) }
func (r *tqvResp) Context(ctx context.Context)     { r.ctx = ctx }

type tqvLog struct{ seen []string }

func (l *tqvLog) msg(format string, args ...interface{}) {
	l.seen = append(l.seen, fmt.Sprintf(format, args...))
}
func (l *tqvLog) Infof(ctx context.Context, format string, args ...interface{}) {
	l.msg(format, args...)
}
func (l *tqvLog) Errorf(ctx context.Context, format string, args ...interface{}) {
	l.msg(format, args...)
}
func (l *tqvLog) Debugf(ctx context.Context, format string, args ...interface{}) {
	l.msg(format, args...)
}
func (l *tqvLog) Record(ctx context.Context, r map[string]string, obscure ...string) {
	hide := map[string]bool{}
	for _, k := range obscure {
		hide[k] = true
	}
	for k, v := range r {
		if !hide[k] {
			l.seen = append(l.seen, "record "+k+"="+v)
		}
	}
}
func (l *tqvLog) Set(ctx context.Context, fields map[string]string, keys ...tq.ContextKey) context.Context {
	for _, k := range keys {
		l.seen = append(l.seen, "retained "+string(k)+"="+fields[string(k)])
	}
	return ctx
}

// the user's authenticator: PASS iff the packet it is handed carries the user's password
type tqvAuth struct{ password string }

func (a tqvAuth) Handle(response tq.Response, request tq.Request) {
	pw := ""
	var st tq.AuthenStart
	var co tq.AuthenContinue
	if tq.Unmarshal(request.Body, &st) == nil {
		pw = string(st.Data)
	} else if tq.Unmarshal(request.Body, &co) == nil {
		pw = string(co.UserMessage)
	}
	status := tq.AuthenStatusFail
	if pw == a.password {
		status = tq.AuthenStatusPass
	}
	response.Reply(tq.NewAuthenReply(tq.SetAuthenReplyStatus(status)))
}

type tqvCfg struct{}

func (tqvCfg) GetUser(user string) *config.AAA {
	if user == "alice" {
		return config.NewAAA(config.SetAAAAuthenticator(tqvAuth{password: tqvToken}))
	}
	return nil
}

type tqvStep struct {
	start *tq.AuthenStart
	cont  *tq.AuthenContinue
	raw   []byte
	minor uint8
}

func TestTqvWitness(t *testing.T) {
	var bad []string
	add := func(f string, a ...interface{}) {
		if len(bad) < 6 {
			bad = append(bad, fmt.Sprintf(f, a...))
		}
	}
	start := func(typ tq.AuthenType, user, data string) *tq.AuthenStart {
		return tq.NewAuthenStart(tq.SetAuthenStartAction(tq.AuthenActionLogin), tq.SetAuthenStartPrivLvl(tq.PrivLvlUser), tq.SetAuthenStartType(typ),
			tq.SetAuthenStartService(tq.AuthenServiceLogin), tq.SetAuthenStartUser(tq.AuthenUser(user)), tq.SetAuthenStartPort("tty0"), tq.SetAuthenStartRemAddr("10.0.0.1"), tq.SetAuthenStartData(tq.AuthenData(data)))
	}
	cont := func(msg string, flags tq.AuthenContinueFlag) *tq.AuthenContinue {
		return tq.NewAuthenContinue(tq.SetAuthenContinueUserMessage(tq.AuthenUserMessage(msg)), tq.SetAuthenContinueFlag(flags))
	}
	type script struct {
		name     string
		steps    []tqvStep
		wantPass bool
	}
	scripts := []script{
		{"PAP, right password", []tqvStep{{start: start(tq.AuthenTypePAP, "alice", tqvToken), minor: 1}}, true},
		{"PAP, wrong password", []tqvStep{{start: start(tq.AuthenTypePAP, "alice", "nope"), minor: 1}}, false},
		{"PAP, unknown user", []tqvStep{{start: start(tq.AuthenTypePAP, "mallory", tqvToken), minor: 1}}, false},
		{"PAP, empty password", []tqvStep{{start: start(tq.AuthenTypePAP, "alice", ""), minor: 1}}, false},
		{"PAP sent with minor version 0", []tqvStep{{start: start(tq.AuthenTypePAP, "alice", tqvToken), minor: 0}}, false},
		{"CHAP (not implemented)", []tqvStep{{start: start(tq.AuthenTypeCHAP, "alice", tqvToken), minor: 1}}, false},
		{"CHAP with service ENABLE at minor version 1, then the right password", []tqvStep{{start: func() *tq.AuthenStart {
			st := start(tq.AuthenTypeCHAP, "alice", "")
			st.Service = tq.AuthenServiceEnable
			return st
		}(), minor: 1}, {cont: cont(tqvToken, 0)}}, false},
		{"ASCII sent with minor version 1 and service ENABLE, then the right password", []tqvStep{{start: func() *tq.AuthenStart {
			st := start(tq.AuthenTypeASCII, "alice", "")
			st.Service = tq.AuthenServiceEnable
			return st
		}(), minor: 1}, {cont: cont(tqvToken, 0)}}, false},
		{"ASCII with user name, right password", []tqvStep{{start: start(tq.AuthenTypeASCII, "alice", ""), minor: 0}, {cont: cont(tqvToken, 0)}}, true},
		{"ASCII, user name asked, right password", []tqvStep{{start: start(tq.AuthenTypeASCII, "", ""), minor: 0}, {cont: cont("alice", 0)}, {cont: cont(tqvToken, 0)}}, true},
		{"ASCII, wrong password", []tqvStep{{start: start(tq.AuthenTypeASCII, "alice", ""), minor: 0}, {cont: cont("nope", 0)}}, false},
		{"ASCII, unknown user", []tqvStep{{start: start(tq.AuthenTypeASCII, "mallory", ""), minor: 0}, {cont: cont(tqvToken, 0)}}, false},
		{"ASCII, abort with the right password", []tqvStep{{start: start(tq.AuthenTypeASCII, "alice", ""), minor: 0}, {cont: cont(tqvToken, tq.AuthenContinueFlagAbort)}}, false},
		{"ASCII, abort bit plus a reserved bit, right password", []tqvStep{{start: start(tq.AuthenTypeASCII, "alice", ""), minor: 0}, {cont: cont(tqvToken, tq.AuthenContinueFlagAbort|0x02)}}, false},
		{"ASCII, abort at the user-name prompt", []tqvStep{{start: start(tq.AuthenTypeASCII, "", ""), minor: 0}, {cont: cont("alice", tq.AuthenContinueFlagAbort)}, {cont: cont(tqvToken, 0)}}, false},
		{"ASCII, abort on the START's own handler path (user name given)", []tqvStep{{start: start(tq.AuthenTypeASCII, "alice", ""), minor: 0}, {cont: cont("", tq.AuthenContinueFlagAbort)}}, false},
		{"ASCII, empty password", []tqvStep{{start: start(tq.AuthenTypeASCII, "alice", ""), minor: 0}, {cont: cont("", 0)}}, false},
		{"ASCII, password with a non-ASCII octet (undecodable CONTINUE)", []tqvStep{{start: start(tq.AuthenTypeASCII, "alice", ""), minor: 0}, {raw: append([]byte{0, byte(len(tqvToken) + 2), 0, 0, 0}, (tqvToken + "\xc3\xa9")...)}}, false},
		{"ASCII, START where a CONTINUE is expected", []tqvStep{{start: start(tq.AuthenTypeASCII, "alice", ""), minor: 0}, {start: start(tq.AuthenTypePAP, "alice", tqvToken), minor: 1}}, false},
		{"garbage START", []tqvStep{{raw: []byte{9, 9, 9}, minor: 0}}, false},
	}
	for _, sc := range scripts {
		func() {
			defer func() {
				if r := recover(); r != nil {
					add("%s: handler panicked: %v", sc.name, r)
				}
			}()
			l := &tqvLog{}
			var h tq.Handler = NewAuthenticateStart(l, tqvCfg{})
			pass := false
			for i, st := range sc.steps {
				if h == nil {
					break
				}
				var body []byte
				switch {
				case st.start != nil:
					body, _ = st.start.MarshalBinary()
				case st.cont != nil:
					body, _ = st.cont.MarshalBinary()
				default:
					body = st.raw
				}
				hdr := tq.Header{Version: tq.Version{MajorVersion: tq.MajorVersion, MinorVersion: st.minor}, Type: tq.Authenticate, SeqNo: tq.SequenceNumber(2*i + 1), SessionID: 77}
				r := &tqvResp{hdr: hdr}
				h.Handle(r, tq.Request{Header: hdr, Body: body, Context: context.Background()})
				if len(r.replies) != 1 {
					add("%s, step %d: %d replies %v for one request", sc.name, i+1, len(r.replies), r.replies)
				}
				for _, s := range r.replies {
					if s == tq.AuthenStatusPass.String() {
						pass = true
					}
				}
				h = r.next
			}
			if pass != sc.wantPass {
				add("%s: PASS=%v, want %v", sc.name, pass, sc.wantPass)
			}
			for _, s := range l.seen {
				if strings.Contains(s, tqvToken) {
					add("%s: password handed to the logger: %q", sc.name, s)
					break
				}
			}
		}()
	}
	out := map[string]interface{}{"obligation": "cmds/server/handlers.Authenticate*", "scenario": "20 scripted PAP / ASCII logins through AuthenticateStart with capturing response and logger",
		"scripts": len(scripts), "mismatches": bad, "violated": len(bad) > 0}
	b, _ := json.Marshal(out)
	fmt.Println("TQV-WITNESS " + string(b))
}
