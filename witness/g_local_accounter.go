package local

// Generic witness scenario for the log-backed accounter (C12): start / stop / watchdog /
// watchdog-with-update requests at sequence numbers 1 and 3, with '%', quotes, backslashes,
// a tab and non-ASCII-free but odd characters in the arguments, plus an undecodable body and
// an unknown flag. For every request: exactly one reply; SUCCESS implies exactly one sink
// line written BEFORE the reply, rendered with the real log.Logger, that JSON-decodes to
// exactly the request; everything else is ERROR.

import (
	"bytes"
	"context"
	"encoding/json"
	"fmt"
	"log"
	"reflect"
	"strings"
	"testing"

	tq "github.com/facebookincubator/tacquito"
)

type tqvResp struct {
	events *[]string
	status []tq.AcctReplyStatus
}

func (r *tqvResp) Reply(v tq.EncoderDecoder) (int, error) {
	*r.events = append(*r.events, "reply")
	if ar, ok := v.(*tq.AcctReply); ok {
		r.status = append(r.status, ar.Status)
	}
	return 0, nil
}
func (r *tqvResp) ReplyWithContext(ctx context.Context, v tq.EncoderDecoder, w ...tq.Writer) (int, error) {
	return r.Reply(v)
}
func (r *tqvResp) Write(p *tq.Packet) (int, error) { return 0, nil }
func (r *tqvResp) Next(next tq.Handler)            {}
func (r *tqvResp) RegisterWriter(tq.Writer)        {}
func (r *tqvResp) Context(ctx context.Context)     {}

type tqvLog struct{}

func (tqvLog) Infof(ctx context.Context, format string, args ...interface{})  {}
func (tqvLog) Errorf(ctx context.Context, format string, args ...interface{}) {}

// the sink: a real log.Logger writing into a buffer, wrapped to record the event order
type tqvSink struct {
	l      *log.Logger
	events *[]string
}

func (s tqvSink) Printf(format string, args ...interface{}) {
	*s.events = append(*s.events, "sink")
	s.l.Printf(format, args...)
}

func TestTqvWitness(t *testing.T) {
	var bad []string
	add := func(f string, a ...interface{}) {
		if len(bad) < 6 {
			bad = append(bad, fmt.Sprintf(f, a...))
		}
	}
	args := tq.Args{"task_id=7", "service=shell", `cmd=show running-config %s 100%d "quoted" \back` + "\t" + `tab`, "", "stop_time=1"}
	n := 0
	for _, flag := range []tq.AcctRequestFlag{tq.AcctFlagStart, tq.AcctFlagStop, tq.AcctFlagWatchdog, tq.AcctFlagWatchdogWithUpdate, 0x01} {
		for _, seq := range []int{1, 3} {
			n++
			req := tq.NewAcctRequest(tq.SetAcctRequestFlag(flag), tq.SetAcctRequestMethod(tq.AuthenMethodTacacsPlus), tq.SetAcctRequestPrivLvl(tq.PrivLvlUser),
				tq.SetAcctRequestType(tq.AuthenTypeASCII), tq.SetAcctRequestService(tq.AuthenServiceLogin), tq.SetAcctRequestUser("alice"),
				tq.SetAcctRequestPort("tty0"), tq.SetAcctRequestRemAddr("10.0.0.1"), tq.SetAcctRequestArgs(args))
			body, err := req.MarshalBinary()
			if err != nil {
				// flags the encoder refuses (0x01 alone): send them raw
				ok := tq.NewAcctRequest(tq.SetAcctRequestFlag(tq.AcctFlagStart), tq.SetAcctRequestMethod(tq.AuthenMethodTacacsPlus), tq.SetAcctRequestPrivLvl(tq.PrivLvlUser),
					tq.SetAcctRequestType(tq.AuthenTypeASCII), tq.SetAcctRequestService(tq.AuthenServiceLogin), tq.SetAcctRequestUser("alice"),
					tq.SetAcctRequestPort("tty0"), tq.SetAcctRequestRemAddr("10.0.0.1"), tq.SetAcctRequestArgs(args))
				body, _ = ok.MarshalBinary()
				body[0] = byte(flag)
			}
			var events []string
			var buf bytes.Buffer
			a := Accounter{loggerProvider: tqvLog{}, sink: tqvSink{l: log.New(&buf, "", 0), events: &events}}
			r := &tqvResp{events: &events}
			a.Handle(r, tq.Request{Header: tq.Header{Type: tq.Accounting, SeqNo: tq.SequenceNumber(seq)}, Body: body, Context: context.Background()})
			desc := fmt.Sprintf("flags %#x at sequence number %d", byte(flag), seq)
			if len(r.status) != 1 {
				add("%s: %d replies", desc, len(r.status))
				continue
			}
			lines := strings.Split(strings.TrimRight(buf.String(), "\n"), "\n")
			if buf.Len() == 0 {
				lines = nil
			}
			if r.status[0] == tq.AcctReplyStatusSuccess {
				if fmt.Sprint(events) != "[sink reply]" {
					add("%s: acknowledged with SUCCESS but the events were %v, want [sink reply]", desc, events)
					continue
				}
				var got tq.AcctRequest
				if len(lines) != 1 || json.Unmarshal([]byte(lines[0]), &got) != nil {
					add("%s: the sink line does not decode as one JSON record: %q", desc, lines)
					continue
				}
				var want tq.AcctRequest
				tq.Unmarshal(body, &want)
				if !reflect.DeepEqual(got, want) {
					add("%s: the record differs from the request:\n  record  %+v\n  request %+v", desc, got, want)
				}
			}
		}
	}
	// undecodable body
	{
		var events []string
		var buf bytes.Buffer
		a := Accounter{loggerProvider: tqvLog{}, sink: tqvSink{l: log.New(&buf, "", 0), events: &events}}
		r := &tqvResp{events: &events}
		a.Handle(r, tq.Request{Header: tq.Header{Type: tq.Accounting, SeqNo: 1}, Body: []byte{1, 2, 3}, Context: context.Background()})
		if len(r.status) != 1 || r.status[0] != tq.AcctReplyStatusError {
			add("undecodable request: replies %v, want one ERROR", r.status)
		}
	}
	out := map[string]interface{}{"obligation": "cmds/server/config/accounters/local.Accounter.Handle/*", "scenario": "flags x sequence numbers with awkward characters, real log.Logger sink", "cases": n, "mismatches": bad, "violated": len(bad) > 0}
	b, _ := json.Marshal(out)
	fmt.Println("TQV-WITNESS " + string(b))
}
