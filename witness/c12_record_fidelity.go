package local

// Witness for .../accounters/local.Accounter.Handle/pre@encoding/json.Marshal#1.1 (C12): an
// accounting request whose arguments begin or end with white space is acknowledged with SUCCESS;
// the record the sink received must decode to exactly the request (every field, every byte).

import (
	"bytes"
	"context"
	"encoding/json"
	"fmt"
	"log"
	"testing"

	tq "github.com/facebookincubator/tacquito"
)

type tqvResp struct{ statuses []string }

func (r *tqvResp) Reply(v tq.EncoderDecoder) (int, error) {
	if ar, ok := v.(*tq.AcctReply); ok {
		r.statuses = append(r.statuses, ar.Status.String())
	}
	return 0, nil
}
func (r *tqvResp) ReplyWithContext(ctx context.Context, v tq.EncoderDecoder, w ...tq.Writer) (int, error) {
	return r.Reply(v)
}
func (r *tqvResp) Write(p *tq.Packet) (int, error) { return 0, nil }
func (r *tqvResp) Next(next tq.Handler)            {}
func (r *tqvResp) RegisterWriter(tq.Writer)        {}
func (r *tqvResp) Context(ctx context.Context)     {}

type tqvLog struct{}

func (tqvLog) Infof(ctx context.Context, format string, args ...interface{})  {}
func (tqvLog) Errorf(ctx context.Context, format string, args ...interface{}) {}

func TestTqvWitness(t *testing.T) {
	var buf bytes.Buffer
	a := Accounter{loggerProvider: tqvLog{}, sink: log.New(&buf, "", 0)}
	req := tq.AcctRequest{Flags: tq.AcctFlagStart, Method: tq.AuthenMethodTacacsPlus, PrivLvl: tq.PrivLvlUser,
		Type: tq.AuthenTypeASCII, Service: tq.AuthenServiceLogin, User: "alice", Port: "tty0", RemAddr: "10.0.0.1",
		Args: tq.Args{"task_id=1", "cmd=show running-config ", "cmd-arg=\t", " service=shell", "cmd-arg=a\r\n"}}
	body, merr := req.MarshalBinary()
	resp := &tqvResp{}
	a.Handle(resp, tq.Request{Header: tq.Header{Type: tq.Accounting, SeqNo: 1}, Body: body, Context: context.Background()})
	var got tq.AcctRequest
	derr := json.Unmarshal(bytes.TrimRight(buf.Bytes(), "\n"), &got)
	same := derr == nil && len(got.Args) == len(req.Args) && got.Flags == req.Flags && got.Method == req.Method && got.PrivLvl == req.PrivLvl &&
		got.Type == req.Type && got.Service == req.Service && got.User == req.User && got.Port == req.Port && got.RemAddr == req.RemAddr
	if same {
		for i := range got.Args {
			same = same && got.Args[i] == req.Args[i]
		}
	}
	out := map[string]interface{}{
		"obligation": "cmds/server/config/accounters/local.Accounter.Handle/pre@encoding/json.Marshal#1.1",
		"scenario":   "accounting START with arguments that begin or end with white space", "marshal_error": fmt.Sprint(merr),
		"reply_statuses": resp.statuses, "sink_line": buf.String(), "sink_decode_error": fmt.Sprint(derr),
		"violated": len(resp.statuses) == 1 && resp.statuses[0] == tq.AcctReplyStatusSuccess.String() && !same,
	}
	b, _ := json.Marshal(out)
	fmt.Println("TQV-WITNESS " + string(b))
}
