package tacquito

// Generic witness scenario for crypter.read (C05 / C17): a proxied connection (ha-proxy
// preamble once, then three packets: START seq 1, CONTINUE seq 3, CONTINUE seq 5) and the same
// three packets on a plain connection, each delivered coalesced, split mid-packet and byte by
// byte. Checked: the three packets come back in order with their bodies; the stream then ends
// with io.EOF; read() itself never touches the connection's deadlines.

import (
	"bytes"
	"encoding/json"
	"fmt"
	"io"
	"net"
	"testing"
	"time"
)

type tqvPxConn struct {
	in        [][]byte
	deadlines int
	out       bytes.Buffer
}

func (c *tqvPxConn) Read(b []byte) (int, error) {
	for len(c.in) > 0 && len(c.in[0]) == 0 {
		c.in = c.in[1:]
	}
	if len(c.in) == 0 {
		return 0, io.EOF
	}
	n := copy(b, c.in[0])
	c.in[0] = c.in[0][n:]
	return n, nil
}
func (c *tqvPxConn) Write(b []byte) (int, error) { return c.out.Write(b) }
func (c *tqvPxConn) Close() error                { return nil }
func (c *tqvPxConn) LocalAddr() net.Addr         { return &net.TCPAddr{IP: net.ParseIP("10.0.0.1"), Port: 49} }
func (c *tqvPxConn) RemoteAddr() net.Addr {
	return &net.TCPAddr{IP: net.ParseIP("10.0.0.2"), Port: 4000}
}
func (c *tqvPxConn) SetDeadline(t time.Time) error      { c.deadlines++; return nil }
func (c *tqvPxConn) SetReadDeadline(t time.Time) error  { c.deadlines++; return nil }
func (c *tqvPxConn) SetWriteDeadline(t time.Time) error { c.deadlines++; return nil }

func TestTqvWitness(t *testing.T) {
	var bad []string
	add := func(f string, a ...interface{}) {
		if len(bad) < 6 {
			bad = append(bad, fmt.Sprintf(f, a...))
		}
	}
	secret := []byte("k3y")
	mk := func(seq int, body EncoderDecoder) []byte {
		p := NewPacket(SetPacketHeader(NewHeader(SetHeaderVersion(Version{MajorVersion: MajorVersion, MinorVersion: MinorVersionDefault}), SetHeaderType(Authenticate), SetHeaderSeqNo(seq), SetHeaderSessionID(0x01020304))), SetPacketBodyUnsafe(body))
		w := &tqvPxConn{}
		if _, err := newCrypter(secret, w, false).write(p); err != nil {
			add("cannot build packet: %v", err)
		}
		return w.out.Bytes()
	}
	bodies := []EncoderDecoder{
		NewAuthenStart(SetAuthenStartAction(AuthenActionLogin), SetAuthenStartType(AuthenTypeASCII), SetAuthenStartService(AuthenServiceLogin), SetAuthenStartPort("tty0"), SetAuthenStartRemAddr("1.2.3.4")),
		NewAuthenContinue(SetAuthenContinueUserMessage("alice")),
		NewAuthenContinue(SetAuthenContinueUserMessage("a password that is a good deal longer than the reader's one hundred and seven byte buffer, so that a packet spans several fills of it ........")),
	}
	var want [][]byte
	var stream []byte
	for i, b := range bodies {
		raw, _ := b.MarshalBinary()
		want = append(want, raw)
		stream = append(stream, mk(2*i+1, b)...)
	}
	preamble := []byte("PROXY TCP4 192.0.2.1 192.0.2.2 1000 49\r\n\x00")
	for _, proxied := range []bool{false, true} {
		full := stream
		if proxied {
			full = append(append([]byte(nil), preamble...), stream...)
		}
		cut := len(full)/2 + 3
		segs := map[string][][]byte{"coalesced": {full}, "split mid-packet": {full[:cut], full[cut:]}, "byte by byte": nil}
		for i := range full {
			segs["byte by byte"] = append(segs["byte by byte"], full[i:i+1])
		}
		for _, name := range []string{"coalesced", "split mid-packet", "byte by byte"} {
			var in [][]byte
			for _, s := range segs[name] {
				in = append(in, append([]byte(nil), s...))
			}
			conn := &tqvPxConn{in: in}
			c := newCrypter(secret, conn, proxied)
			for k := range want {
				p, err := c.read()
				if err != nil || p == nil {
					add("proxy=%v %s: packet %d of the connection: read returned error %v", proxied, name, k+1, err)
					break
				}
				if int(p.Header.SeqNo) != 2*k+1 || !bytes.Equal(p.Body, want[k]) {
					add("proxy=%v %s: packet %d came back with seq %d and a body of %d bytes, want seq %d and the %d bytes sent", proxied, name, k+1, p.Header.SeqNo, len(p.Body), 2*k+1, len(want[k]))
					break
				}
			}
			if len(bad) == 0 {
				if _, err := c.read(); err != io.EOF {
					add("proxy=%v %s: after the last packet read returned %v, want io.EOF", proxied, name, err)
				}
			}
			if conn.deadlines != 0 {
				add("proxy=%v %s: read() changed the connection's deadlines %d times; deadlines are armed by the connection loop only", proxied, name, conn.deadlines)
			}
		}
	}
	out := map[string]interface{}{"obligation": "tacquito.crypter.read", "scenario": "three packets on a plain and on a proxied connection under three segmentations", "mismatches": bad, "violated": len(bad) > 0}
	b, _ := json.Marshal(out)
	fmt.Println("TQV-WITNESS " + string(b))
}
