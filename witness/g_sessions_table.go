package tacquito

// Generic witness scenario for the session-table contracts (C07/C08/C09/C20): set / update /
// get / delete keep exactly what they are given under exactly the given session id, other
// ids are untouched, non-increasing or even sequence numbers are refused, and the
// sessions_active gauge moves with the table size. Exercised on the real table with a short
// scripted history, RESTART (reply numbered 1) included.

import (
	"encoding/json"
	"fmt"
	"testing"

	dto "github.com/prometheus/client_model/go"
)

type tqvH struct{ name string }

func (tqvH) Handle(response Response, request Request) {}

func tqvGauge() float64 {
	var m dto.Metric
	sessionsActive.Write(&m)
	return m.GetGauge().GetValue()
}

func TestTqvWitness(t *testing.T) {
	var bad []string
	add := func(f string, a ...interface{}) {
		if len(bad) < 6 {
			bad = append(bad, fmt.Sprintf(f, a...))
		}
	}
	s := newSessionProvider()
	base := tqvGauge()
	hdr := func(id SessionID, seq int) Header {
		return Header{SessionID: id, SeqNo: SequenceNumber(seq), Type: Authenticate}
	}
	hA, hB := &tqvH{"A"}, &tqvH{"B"}
	// two sessions open
	if st, err := s.get(hdr(1, 1)); err != nil || st != nil {
		add("new session 1: get = (%v, %v), want (nil, nil)", st, err)
	}
	s.set(hdr(1, 1), nil)
	s.update(hdr(1, 2), hA) // reply 2 sent, continuation A registered
	s.set(hdr(2, 1), nil)
	s.update(hdr(2, 2), hB)
	if g := tqvGauge(); g != base+2 {
		add("two sessions in the table, gauge moved by %v", g-base)
	}
	if sc := s.known[1]; sc == nil || sc.header.SeqNo != 2 || sc.Handler != Handler(hA) {
		add("after update(id 1, seq 2, A) the entry is %+v", sc)
	}
	if sc := s.known[2]; sc == nil || sc.header.SeqNo != 2 || sc.Handler != Handler(hB) {
		add("session 2 disturbed by operations on session 1: %+v", sc)
	}
	// replays and even numbers are refused, the right continuation is returned
	if _, err := s.get(hdr(1, 1)); err == nil {
		add("request 1 accepted again after reply 2")
	}
	// an even request number is refused (and drops that session: use a session of its own)
	s.set(hdr(4, 1), nil)
	s.update(hdr(4, 2), hA)
	if _, err := s.get(hdr(4, 4)); err == nil {
		add("even request number 4 accepted")
	}
	if st, err := s.get(hdr(1, 3)); err != nil || st != Handler(hA) {
		add("request 3 of session 1: get = (%v, %v), want continuation A", st, err)
	}
	s.update(hdr(1, 4), hB)
	if _, err := s.get(hdr(1, 3)); err == nil {
		add("request 3 accepted again after reply 4 (stored sequence number not advanced)")
	}
	if st, err := s.get(hdr(1, 5)); err != nil || st != Handler(hB) {
		add("request 5 of session 1: get = (%v, %v), want continuation B", st, err)
	}
	// RESTART: the reply is numbered 1, the continuation must still be recorded
	s.set(hdr(3, 1), nil)
	s.update(hdr(3, 1), hA)
	if sc := s.known[3]; sc == nil || sc.Handler != Handler(hA) {
		add("after a RESTART reply (numbered 1) the continuation of session 3 is not recorded: %+v", sc)
	}
	// completion removes exactly that session; deleting an unknown id changes nothing
	s.delete(2)
	s.delete(99)
	if _, ok := s.known[2]; ok {
		add("session 2 still in the table after delete")
	}
	if g := tqvGauge(); g != base+float64(len(s.known)) {
		add("gauge %v, table size %d (base %v)", g, len(s.known), base)
	}
	s.close()
	if g := tqvGauge(); g != base {
		add("gauge did not return to rest after close: %v (base %v)", g, base)
	}
	// entries are never shared: on a fresh table, after a session has completed, two sessions
	// opened at the same time keep their own header and continuation
	{
		t2 := newSessionProvider()
		t2.set(hdr(40, 1), hA)
		t2.delete(40)
		t2.set(hdr(41, 1), hA)
		t2.set(hdr(42, 1), hB)
		a, b := t2.known[41], t2.known[42]
		if a == nil || b == nil || a == b || a.header.SessionID != 41 || b.header.SessionID != 42 || a.Handler != Handler(hA) || b.Handler != Handler(hB) {
			add("two sessions opened after a completed one share or lose their table entry: 41 -> %+v, 42 -> %+v", a, b)
		}
		t2.close()
	}
	out := map[string]interface{}{"obligation": "tacquito.sessions.*", "scenario": "scripted history on the real session table (two sessions, replay, even number, RESTART, delete, close)",
		"mismatches": bad, "violated": len(bad) > 0}
	b, _ := json.Marshal(out)
	fmt.Println("TQV-WITNESS " + string(b))
}
