package tacquito

// Witness scenario for tacquito.sessions.delete/post#4 (C20): deleting an id that is not
// in the table must leave "sessionsActive - len(known)" unchanged.

import (
	"encoding/json"
	"fmt"
	"testing"

	dto "github.com/prometheus/client_model/go"
)

func tqvGauge() float64 {
	var m dto.Metric
	sessionsActive.Write(&m)
	return m.GetGauge().GetValue()
}

func TestTqvWitness(t *testing.T) {
	s := newSessionProvider()
	before := tqvGauge() - float64(len(s.known))
	s.delete(SessionID(7))
	after := tqvGauge() - float64(len(s.known))
	out := map[string]interface{}{
		"obligation":             "tacquito.sessions.delete/post#4",
		"scenario":               "delete(7) on an empty table",
		"gauge_minus_len_before": before, "gauge_minus_len_after": after,
		"violated": before != after,
	}
	b, _ := json.Marshal(out)
	fmt.Println("TQV-WITNESS " + string(b))
}
