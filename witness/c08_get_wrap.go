package tacquito

// Witness scenario for obligation tacquito.sessions.get/post#3 (C08): after a request
// numbered 255 the reply header stored by update carries sequence 256; a later packet
// of the same session numbered 1 must be rejected (1 is not greater than 256).

import (
	"encoding/json"
	"fmt"
	"testing"
)

func TestTqvWitness(t *testing.T) {
	s := newSessionProvider()
	req := Header{Version: Version{MajorVersion: MajorVersion}, Type: Authenticate, SeqNo: 255, SessionID: 7}
	s.set(req, nil)
	reply := req
	reply.SeqNo = 256 // what response.Reply stores after a request numbered 255 (no packet is written)
	s.update(reply, HandlerFunc(func(Response, Request) {}))
	next := req
	next.SeqNo = 1
	h, err := s.get(next)
	out := map[string]interface{}{
		"obligation":  "tacquito.sessions.get/post#3",
		"scenario":    "set(seq 255); update(seq 256, continuation); get(seq 1)",
		"stored_last": 256, "current": 1,
		"handler_returned": h != nil, "error": fmt.Sprint(err),
		"violated": err == nil,
	}
	b, _ := json.Marshal(out)
	fmt.Println("TQV-WITNESS " + string(b))
}
