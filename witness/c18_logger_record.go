package log

// BOUNDED check (C18) of the reference logger's Record: the handlers' contracts say that every
// secret-bearing key of a record is named in the `obscure` list of the same call; this probe
// checks the other half on the real implementation — a key named in `obscure` never reaches the
// output with its value, whatever else the list or the record contains. Exhaustive over:
// records = every subset of {user, data, user-msg, port} (values are unique tokens), obscure
// lists = every sequence of 0..3 distinct names from {user, data, user-msg, port, absent}
// (so lists that start, continue or end with a key the record does not have are included),
// at debug level (the only level at which records are printed) — 16 x 86 = 1376 calls.

import (
	"bytes"
	"context"
	"encoding/json"
	"fmt"
	"strings"
	"testing"
)

func TestTqvWitness(t *testing.T) {
	keys := []string{"user", "data", "user-msg", "port"}
	names := append(append([]string(nil), keys...), "absent")
	var lists [][]string
	var rec func(cur []string)
	rec = func(cur []string) {
		lists = append(lists, append([]string(nil), cur...))
		if len(cur) == 3 {
			return
		}
		for _, n := range names {
			dup := false
			for _, c := range cur {
				if c == n {
					dup = true
				}
			}
			if !dup {
				rec(append(cur, n))
			}
		}
	}
	rec(nil)
	var bad []string
	n := 0
	for mask := 0; mask < 1<<len(keys); mask++ {
		for _, obs := range lists {
			n++
			var buf bytes.Buffer
			l := New(30, &buf)
			r := map[string]string{}
			for i, k := range keys {
				if mask&(1<<i) != 0 {
					r[k] = "SECRET-OF-" + k + "-7f3a"
				}
			}
			had := map[string]bool{}
			for k := range r {
				had[k] = true
			}
			l.Record(context.Background(), r, obs...)
			out := buf.String()
			for _, k := range obs {
				if had[k] && strings.Contains(out, "SECRET-OF-"+k+"-7f3a") && len(bad) < 4 {
					bad = append(bad, fmt.Sprintf("record with keys %v, obscure list %v: the value of %q was printed: %s", keysOf(had), obs, k, strings.TrimSpace(out)))
				}
			}
		}
	}
	out := map[string]interface{}{
		"obligation": "cmds/server/log.Logger.Record/bounded.obscure",
		"scenario":   "exhaustive: 16 records x 86 obscure lists through the real Logger.Record at debug level",
		"calls":      n, "mismatches": bad, "violated": len(bad) > 0 || n != 1376,
	}
	b, _ := json.Marshal(out)
	fmt.Println("TQV-WITNESS " + string(b))
}

func keysOf(m map[string]bool) []string {
	var ks []string
	for k := range m {
		ks = append(ks, k)
	}
	return ks
}
