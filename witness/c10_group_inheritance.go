package loader

// BOUNDED check (C10, configuration side) of Loader.reduceAuthenticatorAccounterFromGroups,
// which the generator cannot verify (slices of structs with pointer fields): exhaustive over
// every user with 0..4 groups, each group with / without an authenticator and with / without
// an accounter, the user with / without its own authenticator and accounter (1 + 4 + ... =
// 1364 configurations). Independent specification: the user's own entry wins; otherwise the
// entry of the FIRST group (configured order) that has one; otherwise none.

import (
	"context"
	"encoding/json"
	"fmt"
	"testing"

	"github.com/facebookincubator/tacquito/cmds/server/config"
)

type tqvLog struct{}

func (tqvLog) Infof(ctx context.Context, format string, args ...interface{})  {}
func (tqvLog) Errorf(ctx context.Context, format string, args ...interface{}) {}
func (tqvLog) Debugf(ctx context.Context, format string, args ...interface{}) {}

func TestTqvWitness(t *testing.T) {
	l := Loader{loggerProvider: tqvLog{}, ctx: context.Background()}
	var bad []string
	n := 0
	for groups := 0; groups <= 4; groups++ {
		for mask := 0; mask < 1<<(2*groups); mask++ {
			for own := 0; own < 4; own++ {
				u := config.User{Name: "u"}
				var wantA *config.Authenticator
				var wantC *config.Accounter
				if own&1 != 0 {
					u.Authenticator = &config.Authenticator{}
					wantA = u.Authenticator
				}
				if own&2 != 0 {
					u.Accounter = &config.Accounter{}
					wantC = u.Accounter
				}
				for g := 0; g < groups; g++ {
					grp := config.Group{Name: fmt.Sprintf("g%d", g)}
					if mask>>(2*g)&1 != 0 {
						grp.Authenticator = &config.Authenticator{}
						if wantA == nil {
							wantA = grp.Authenticator
						}
					}
					if mask>>(2*g+1)&1 != 0 {
						grp.Accounter = &config.Accounter{}
						if wantC == nil {
							wantC = grp.Accounter
						}
					}
					u.Groups = append(u.Groups, grp)
				}
				l.reduceAuthenticatorAccounterFromGroups("scope", &u)
				n++
				if (u.Authenticator != wantA || u.Accounter != wantC) && len(bad) < 4 {
					bad = append(bad, fmt.Sprintf("groups=%d mask=%b own=%b: authenticator from first group: %v, accounter from first group: %v",
						groups, mask, own, u.Authenticator == wantA, u.Accounter == wantC))
				}
			}
		}
	}
	out := map[string]interface{}{
		"obligation":     "cmds/server/loader.Loader.reduceAuthenticatorAccounterFromGroups/bounded.first-group",
		"scenario":       "exhaustive: 0..4 groups x authenticator/accounter present or absent per group x user-level entries",
		"configurations": n, "mismatches": bad, "violated": len(bad) > 0 || n != 1364,
	}
	b, _ := json.Marshal(out)
	fmt.Println("TQV-WITNESS " + string(b))
}
