package yaml

// Witness for cmds/server/loader/yaml.YAML.Unmarshal/pre@gopkg.in/yaml.v3.Unmarshal#1.1 (C16):
// document A configures prefix_deny, document B does not; after loading A then B the published
// configuration must equal what a fresh loader publishes for B.

import (
	"encoding/json"
	"fmt"
	"reflect"
	"testing"
)

const tqvA = `
secrets:
  - name: s1
    secret: {key: k}
users:
  - name: alice
    scopes: [s1]
prefix_deny: [10.0.0.0/8]
`
const tqvB = `
secrets:
  - name: s1
    secret: {key: k}
users:
  - name: alice
    scopes: [s1]
`

func TestTqvWitness(t *testing.T) {
	reloaded := New()
	_ = reloaded.Unmarshal([]byte(tqvA))
	<-reloaded.Config()
	errB := reloaded.Unmarshal([]byte(tqvB))
	got := <-reloaded.Config()
	fresh := New()
	_ = fresh.Unmarshal([]byte(tqvB))
	want := <-fresh.Config()
	out := map[string]interface{}{
		"obligation": "cmds/server/loader/yaml.YAML.Unmarshal/pre@gopkg.in/yaml.v3.Unmarshal#1.1",
		"scenario":   "load A (prefix_deny 10.0.0.0/8), then B (no prefix_deny), compare with a fresh loader given B",
		"error_B":    fmt.Sprint(errB), "prefix_deny_after_reload": got.PrefixDeny, "prefix_deny_fresh": want.PrefixDeny,
		"violated": !reflect.DeepEqual(got, want),
	}
	b, _ := json.Marshal(out)
	fmt.Println("TQV-WITNESS " + string(b))
}
