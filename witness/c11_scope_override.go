package stringy

// Witness for cmds/server/config/authorizers/stringy.SessionBasedAuthorizer.evaluate/inv1.init#2 (C11):
// the connection's scope is injected as an argument BEFORE the argument list is de-duplicated
// (first occurrence kept) and the match map keeps the LAST value per attribute. A client that
// sends its true scope first and another scope later drops the injected argument and
// overrides the connection's scope.

import (
	"context"
	"encoding/json"
	"fmt"
	"testing"

	tq "github.com/facebookincubator/tacquito"
	"github.com/facebookincubator/tacquito/cmds/server/config"
)

type tqvResp struct {
	status string
	args   []string
	n      int
}

func (r *tqvResp) Reply(v tq.EncoderDecoder) (int, error) {
	r.n++
	if ar, ok := v.(*tq.AuthorReply); ok {
		r.status = ar.Status.String()
		for _, a := range ar.Args {
			r.args = append(r.args, a.String())
		}
	}
	return 0, nil
}
func (r *tqvResp) ReplyWithContext(ctx context.Context, v tq.EncoderDecoder, w ...tq.Writer) (int, error) {
	return r.Reply(v)
}
func (r *tqvResp) Write(p *tq.Packet) (int, error) { return 0, nil }
func (r *tqvResp) Next(next tq.Handler)            {}
func (r *tqvResp) RegisterWriter(tq.Writer)        {}
func (r *tqvResp) Context(ctx context.Context)     {}

type tqvLog struct{}

func (tqvLog) Infof(ctx context.Context, format string, args ...interface{})  {}
func (tqvLog) Errorf(ctx context.Context, format string, args ...interface{}) {}
func (tqvLog) Debugf(ctx context.Context, format string, args ...interface{}) {}

func TestTqvWitness(t *testing.T) {
	u := config.User{
		Name:   "cisco",
		Scopes: []string{"lab-scope"}, // localized: the connection belongs to lab-scope
		Services: []config.Service{
			{Name: "shell", Match: []config.Value{{Name: "scope", Values: []string{"lab-scope"}}},
				SetValues: []config.Value{{Name: "priv-lvl", Values: []string{"1"}}}},
			{Name: "shell", Match: []config.Value{{Name: "scope", Values: []string{"prod-scope"}}},
				SetValues: []config.Value{{Name: "priv-lvl", Values: []string{"15"}}}},
		},
	}
	h, _ := New(tqvLog{}).New(u)
	run := func(args tq.Args) *tqvResp {
		body, _ := tq.NewAuthorRequest(
			tq.SetAuthorRequestMethod(tq.AuthenMethodTacacsPlus), tq.SetAuthorRequestPrivLvl(tq.PrivLvlRoot),
			tq.SetAuthorRequestType(tq.AuthenTypeASCII), tq.SetAuthorRequestService(tq.AuthenServiceLogin),
			tq.SetAuthorRequestUser("cisco"), tq.SetAuthorRequestPort("tty0"), tq.SetAuthorRequestRemAddr("10.0.0.1"),
			tq.SetAuthorRequestArgs(args),
		).MarshalBinary()
		r := &tqvResp{}
		h.Handle(r, tq.Request{Header: tq.Header{Type: tq.Authorize, SeqNo: 1}, Body: body, Context: context.Background()})
		return r
	}
	plain := run(tq.Args{"service=shell", "cmd="})
	forged := run(tq.Args{"service=shell", "cmd=", "scope=lab-scope", "scope*prod-scope"})
	has := func(xs []string, s string) bool {
		for _, x := range xs {
			if x == s {
				return true
			}
		}
		return false
	}
	violated := has(forged.args, "priv-lvl=15") || !has(forged.args, "priv-lvl=1")
	out := map[string]interface{}{
		"obligation":  "cmds/server/config/authorizers/stringy.SessionBasedAuthorizer.evaluate/inv1.init#2",
		"scenario":    "connection localized to lab-scope; client sends [service=shell cmd= scope=lab-scope scope*prod-scope]",
		"plain_reply": fmt.Sprint(plain.status, plain.args), "forged_reply": fmt.Sprint(forged.status, forged.args),
		"expected": "the lab-scope values [priv-lvl=1] only", "violated": violated,
	}
	b, _ := json.Marshal(out)
	fmt.Println("TQV-WITNESS " + string(b))
}
