package tacquito

// Generic witness scenario for the connection loop and the reader (C05 / C07 / C17 / C19):
// the same three packets are delivered under several TCP segmentations and must reach the
// handler identically, each answered once with request+1; a read that hits its deadline (or
// fails) ends the loop and closes the connection without another read; a packet under the
// wrong secret numbered 3 is signalled (one ERROR packet) and never reaches the handler.

import (
	"bytes"
	"context"
	"crypto/md5"
	"encoding/binary"
	"encoding/json"
	"fmt"
	"io"
	"net"
	"os"
	"testing"
	"time"
)

type tqvScript struct {
	chunks            [][]byte // successive Read results
	failWith          error    // returned once the chunks are used up
	reads             int
	readsAfterFailure int
	failed            bool
	out               bytes.Buffer
	closed            int
	deadlines         int
}

func (c *tqvScript) Read(b []byte) (int, error) {
	c.reads++
	if c.failed {
		c.readsAfterFailure++
		return 0, io.EOF
	}
	for len(c.chunks) > 0 && len(c.chunks[0]) == 0 {
		c.chunks = c.chunks[1:]
	}
	if len(c.chunks) == 0 {
		c.failed = true
		return 0, c.failWith
	}
	n := copy(b, c.chunks[0])
	c.chunks[0] = c.chunks[0][n:]
	return n, nil
}
func (c *tqvScript) Write(b []byte) (int, error) { return c.out.Write(b) }
func (c *tqvScript) Close() error                { c.closed++; return nil }
func (c *tqvScript) LocalAddr() net.Addr         { return &net.TCPAddr{IP: net.IPv4(127, 0, 0, 1), Port: 49} }
func (c *tqvScript) RemoteAddr() net.Addr {
	return &net.TCPAddr{IP: net.IPv4(127, 0, 0, 1), Port: 4949}
}
func (c *tqvScript) SetDeadline(t time.Time) error      { return nil }
func (c *tqvScript) SetReadDeadline(t time.Time) error  { c.deadlines++; return nil }
func (c *tqvScript) SetWriteDeadline(t time.Time) error { return nil }

type tqvLogger struct{}

func (tqvLogger) Infof(ctx context.Context, format string, args ...interface{})      {}
func (tqvLogger) Errorf(ctx context.Context, format string, args ...interface{})     {}
func (tqvLogger) Debugf(ctx context.Context, format string, args ...interface{})     {}
func (tqvLogger) Record(ctx context.Context, r map[string]string, obscure ...string) {}

type tqvRecorder struct {
	seen []string
}

func (h *tqvRecorder) Handle(response Response, request Request) {
	h.seen = append(h.seen, fmt.Sprintf("seq=%d sid=%d body=%x", request.Header.SeqNo, request.Header.SessionID, request.Body))
	response.Reply(NewAuthenReply(SetAuthenReplyStatus(AuthenStatusFail)))
}

func tqvPad(secret []byte, sid uint32, ver, seq byte, n int) []byte {
	var pad, prev []byte
	for len(pad) < n {
		h := md5.New()
		var s [4]byte
		binary.BigEndian.PutUint32(s[:], sid)
		h.Write(s[:])
		h.Write(secret)
		h.Write([]byte{ver, seq})
		h.Write(prev)
		prev = h.Sum(nil)
		pad = append(pad, prev...)
	}
	return pad[:n]
}

func tqvPacket(secret []byte, sid uint32, seq byte, body []byte) []byte {
	ver := byte(MajorVersion)<<4 | byte(MinorVersionDefault)
	h := []byte{ver, byte(Authenticate), seq, 0, 0, 0, 0, 0, 0, 0, 0, 0}
	binary.BigEndian.PutUint32(h[4:], sid)
	binary.BigEndian.PutUint32(h[8:], uint32(len(body)))
	enc := append([]byte(nil), body...)
	for i, p := range tqvPad(secret, sid, ver, seq, len(enc)) {
		enc[i] ^= p
	}
	return append(h, enc...)
}

func TestTqvWitness(t *testing.T) {
	secret := []byte("tqv-secret")
	var bad []string
	add := func(f string, a ...interface{}) {
		if len(bad) < 6 {
			bad = append(bad, fmt.Sprintf(f, a...))
		}
	}
	start := func(user string) []byte {
		b, _ := NewAuthenStart(SetAuthenStartAction(AuthenActionLogin), SetAuthenStartPrivLvl(PrivLvlUser), SetAuthenStartType(AuthenTypeASCII),
			SetAuthenStartService(AuthenServiceLogin), SetAuthenStartUser(AuthenUser(user)), SetAuthenStartPort("tty0"), SetAuthenStartRemAddr("10.0.0.1")).MarshalBinary()
		return b
	}
	stream := append(append(tqvPacket(secret, 11, 1, start("alice")), tqvPacket(secret, 12, 1, start("bob-with-a-much-longer-user-name-than-the-others-to-cross-the-reader-buffer-boundary-0123456789"))...), tqvPacket(secret, 13, 1, start("carol"))...)
	run := func(chunks [][]byte, failWith error) (*tqvScript, *tqvRecorder) {
		conn := &tqvScript{chunks: chunks, failWith: failWith}
		rec := &tqvRecorder{}
		s := &Server{loggerProvider: tqvLogger{}}
		done := make(chan struct{})
		go func() { defer close(done); s.handle(context.Background(), newCrypter(secret, conn, false), rec) }()
		select {
		case <-done:
		case <-time.After(3 * time.Second):
			add("connection loop still running 3 s after its input ended")
		}
		return conn, rec
	}
	cut := func(b []byte, sizes ...int) [][]byte {
		var out [][]byte
		for _, n := range sizes {
			if n > len(b) {
				n = len(b)
			}
			out = append(out, b[:n])
			b = b[n:]
		}
		return append(out, b)
	}
	var ref []string
	segs := map[string][][]byte{
		"one write":           {stream},
		"header / body cuts":  cut(stream, 12, 5, 200, 12, 7),
		"byte by byte":        nil,
		"cut inside a header": cut(stream, 7, 30, 3),
	}
	for i := range stream {
		segs["byte by byte"] = append(segs["byte by byte"], stream[i:i+1])
	}
	for _, name := range []string{"one write", "header / body cuts", "byte by byte", "cut inside a header"} {
		conn, rec := run(segs[name], io.EOF)
		if ref == nil {
			ref = rec.seen
			if len(ref) != 3 {
				add("%s: %d packets reached the handler, want 3", name, len(ref))
			}
		} else if fmt.Sprint(rec.seen) != fmt.Sprint(ref) {
			add("segmentation %q changes what the handler sees: %v vs %v", name, rec.seen, ref)
		}
		if conn.closed != 1 {
			add("%s: connection closed %d times", name, conn.closed)
		}
		// replies: three packets numbered 2
		o := conn.out.Bytes()
		cnt := 0
		for len(o) >= 12 {
			l := int(binary.BigEndian.Uint32(o[8:]))
			if o[2] != 2 || 12+l > len(o) {
				add("%s: reply header % x", name, o[:12])
				break
			}
			o = o[12+l:]
			cnt++
		}
		if cnt != len(rec.seen) {
			add("%s: %d replies for %d handled requests", name, cnt, len(rec.seen))
		}
	}
	// deadline: one complete packet, then the read times out in the middle of the next header
	conn, rec := run([][]byte{tqvPacket(secret, 21, 1, start("dave")), {0xc0, 0x01, 0x01}}, &net.OpError{Op: "read", Err: os.ErrDeadlineExceeded})
	if len(rec.seen) != 1 || conn.closed != 1 || conn.readsAfterFailure != 0 {
		add("read deadline: handled=%d closed=%d reads after the failed read=%d (want 1, 1, 0)", len(rec.seen), conn.closed, conn.readsAfterFailure)
	}
	if conn.deadlines < 2 {
		add("read deadline armed %d times for 2 reads", conn.deadlines)
	}
	// wrong secret on a continuation (seq 3): signalled, not handled
	conn, rec = run([][]byte{tqvPacket(secret, 31, 1, start("erin")), tqvPacket([]byte("another-secret"), 31, 3, []byte{0, 5, 0, 0, 0, 'h', 'e', 'l', 'l', 'o'})}, io.EOF)
	if len(rec.seen) != 1 {
		add("packet under another secret numbered 3: %d packets reached the handler, want 1", len(rec.seen))
	}
	if conn.closed != 1 {
		add("wrong secret: connection closed %d times", conn.closed)
	}
	// two sessions multiplexed on one connection: A registers a continuation, B completes at
	// once; a further packet of B must go to the entry handler, never to A's continuation
	{
		conn := &tqvScript{chunks: [][]byte{tqvPacket(secret, 41, 1, start("amy")), tqvPacket(secret, 42, 1, start("ben")), tqvPacket(secret, 42, 3, start("ben")), tqvPacket(secret, 41, 3, start("amy"))}, failWith: io.EOF}
		var log []string
		var cont HandlerFunc
		cont = func(response Response, request Request) {
			log = append(log, fmt.Sprintf("continuation-of-41 got sid=%d seq=%d", request.Header.SessionID, request.Header.SeqNo))
			response.Reply(NewAuthenReply(SetAuthenReplyStatus(AuthenStatusFail)))
		}
		entry := HandlerFunc(func(response Response, request Request) {
			log = append(log, fmt.Sprintf("entry got sid=%d seq=%d", request.Header.SessionID, request.Header.SeqNo))
			if request.Header.SessionID == 41 {
				response.Next(cont)
			}
			response.Reply(NewAuthenReply(SetAuthenReplyStatus(AuthenStatusGetPass)))
		})
		s := &Server{loggerProvider: tqvLogger{}}
		done := make(chan struct{})
		go func() { defer close(done); s.handle(context.Background(), newCrypter(secret, conn, false), entry) }()
		select {
		case <-done:
		case <-time.After(3 * time.Second):
			add("multiplexing: loop still running")
		}
		want := "[entry got sid=41 seq=1 entry got sid=42 seq=1 entry got sid=42 seq=3 continuation-of-41 got sid=41 seq=3]"
		if fmt.Sprint(log) != want {
			add("two sessions on one connection: dispatch was %v, want %s", log, want)
		}
	}
	// replayed / non-increasing sequence numbers on a session that waits for a continuation:
	// refused without reaching any handler, connection closed — with and without single-connect
	for _, flags := range []byte{0, byte(SingleConnect)} {
		mk := func(seq byte) []byte {
			pk := tqvPacket(secret, 51, seq, start("zoe"))
			pk[3] = flags // header flags are not part of the pad
			return pk
		}
		conn := &tqvScript{chunks: [][]byte{mk(1), mk(1), mk(1)}, failWith: io.EOF}
		calls := 0
		var entry HandlerFunc
		entry = func(response Response, request Request) {
			calls++
			response.Next(entry)
			response.Reply(NewAuthenReply(SetAuthenReplyStatus(AuthenStatusGetPass)))
		}
		s := &Server{loggerProvider: tqvLogger{}}
		done := make(chan struct{})
		go func() { defer close(done); s.handle(context.Background(), newCrypter(secret, conn, false), entry) }()
		select {
		case <-done:
		case <-time.After(3 * time.Second):
			add("replay (flags %#x): loop still running", flags)
		}
		if calls != 1 {
			add("request 1 replayed on a session awaiting request 3 (header flags %#x): %d handler invocations, want 1", flags, calls)
		}
		if len(conn.chunks) < 1 || conn.closed != 1 {
			add("request 1 replayed (header flags %#x): the connection was not closed at the refused request (unread packets %d, closed %d)", flags, len(conn.chunks), conn.closed)
		}
	}
	out := map[string]interface{}{"obligation": "tacquito.Server.handle/* tacquito.crypter.read/*", "scenario": "three packets under four segmentations; read deadline mid-header; wrong-secret continuation",
		"mismatches": bad, "violated": len(bad) > 0}
	b, _ := json.Marshal(out)
	fmt.Println("TQV-WITNESS " + string(b))
}
