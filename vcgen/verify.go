package main

import (
	"fmt"
	"go/types"
	"os"
	"runtime/debug"
	"sort"
	"strings"

	"golang.org/x/tools/go/ssa"
)

// resolveType finds a named type for ghost declarations ("AuthenStart", "tq.Header", "int", "[]byte").
func (e *Engine) resolveType(pkg *types.Package, name string) types.Type {
	name = strings.TrimSpace(name)
	if strings.HasPrefix(name, "*") {
		if t := e.resolveType(pkg, name[1:]); t != nil {
			return types.NewPointer(t)
		}
		return nil
	}
	if strings.HasPrefix(name, "[]") {
		if t := e.resolveType(pkg, name[2:]); t != nil {
			return types.NewSlice(t)
		}
		return nil
	}
	if o := types.Universe.Lookup(name); o != nil {
		if tn, ok := o.(*types.TypeName); ok {
			return tn.Type()
		}
	}
	if i := strings.Index(name, "."); i >= 0 {
		ctx := &EvalCtx{e: e, pkg: pkg}
		if p := ctx.findPkg(name[:i]); p != nil {
			if tn, ok := p.Scope().Lookup(name[i+1:]).(*types.TypeName); ok {
				return tn.Type()
			}
		}
		return nil
	}
	if pkg != nil {
		if tn, ok := pkg.Scope().Lookup(name).(*types.TypeName); ok {
			return tn.Type()
		}
	}
	if sp := e.ssaPkgs[modPath]; sp != nil {
		if tn, ok := sp.Pkg.Scope().Lookup(name).(*types.TypeName); ok {
			return tn.Type()
		}
	}
	return nil
}

type EntryInfo struct {
	Fn       *ssa.Function
	Args     []Value
	Names    []string
	ResNames []string
	Entry    *State
	Con      *Contract
}

// verifyFunction generates all obligations of fn against its contract.
func (e *Engine) verifyFunction(fn *ssa.Function, con *Contract) {
	key := funcKey(fn)
	e.curFn = key
	for ci, sc := range con.Cases {
		// skip cases without any clause relevant to the selected tags (safety
		// obligations are generated under the first case only)
		relevant := ci == 0
		for _, cl := range sc.Ensures {
			if hasTag(cl.Tags, e.curTags) {
				relevant = true
			}
		}
		if !relevant {
			continue
		}
		func() {
			// a crash of the generator on (changed) code must not hide everything else: the
			// function's remaining obligations simply are not generated, which the baseline
			// comparison reports as missing
			defer func() {
				if r := recover(); r != nil {
					e.toolError("generator crashed in %s: %v", key, r)
					if os.Getenv("TQV_STACK") != "" {
						fmt.Fprintf(os.Stderr, "%s\n", debug.Stack())
					}
				}
			}()
			e.verifyCase(fn, con, ci, sc)
		}()
	}
}

func (e *Engine) verifyCase(fn *ssa.Function, con *Contract, ci int, sc *SpecCase) {
	key := funcKey(fn)
	e.curCase = ci + 1
	st := &State{heap: map[*Obj]Value{}, ghost: map[string]Value{}, inLoop: map[int]bool{}, vars: map[string]Value{}}
	fr := &Frame{fn: fn, env: map[ssa.Value]Value{}, con: con, top: true, visits: map[int]int{}, bind: map[string]Value{}}
	if ci > 0 {
		fr.callPath = fmt.Sprintf("~case%d", ci+1)
	}
	args := make([]Value, len(fn.Params))
	for i, p := range fn.Params {
		name := p.Name()
		if i < len(con.Params) && con.Params[i] != "" {
			name = con.Params[i]
		}
		args[i] = e.fresh(st, p.Type(), name)
		fr.bind[name] = args[i]
		if i < len(con.Params) {
			fr.bind[con.Params[i]] = args[i]
		}
		fr.bind[p.Name()] = args[i]
	}
	for n, i := range con.Alias {
		if i < len(args) {
			if _, have := fr.bind[n]; !have {
				fr.bind[n] = args[i]
			}
		}
	}
	var bound []Value
	for _, fv := range fn.FreeVars {
		v := e.fresh(st, fv.Type(), fv.Name())
		// free variables are pointers to the captured variables
		if p, ok := v.(PtrV); ok {
			p.Nil = TFalse
			v = p
		}
		bound = append(bound, v)
		fr.bind[fv.Name()] = varAddrOrValue(v)
	}
	pkg := e.pkgOfKey(key)
	for _, g := range sc.Ghost {
		t := e.resolveType(pkg, g.Type)
		if t == nil {
			e.toolError("unknown ghost type %s", g.Type)
			continue
		}
		fr.bind[g.Name] = e.fresh(st, t, "ghost_"+g.Name)
	}
	ctx := e.ctxFor(st, nil, con, key)
	ctx.noVars = true
	for k, v := range fr.bind {
		ctx.bind[k] = v
	}
	// requires of the first case are shared by all cases
	// taint sources declared by the contract (C18)
	for _, td := range con.Taints {
		if hasTag(td.Tags, e.curTags) {
			ctx.taintExpr(td.E, td.Bits)
		}
	}
	// labels put on struct-valued parameters (value receivers) replace the bound value
	for i, p := range fn.Params {
		for _, n := range []string{p.Name(), func() string {
			if i < len(con.Params) {
				return con.Params[i]
			}
			return ""
		}()} {
			if n == "" {
				continue
			}
			if nv, ok := ctx.bind[n]; ok {
				if _, isS := nv.(StructV); isS && e.taintBits(st, nv, 0) != e.taintBits(st, args[i], 0) {
					args[i] = nv
					fr.bind[p.Name()] = nv
					fr.bind[n] = nv
				}
			}
		}
	}
	reqs := append([]*Clause{}, con.Cases[0].Requires...)
	if ci > 0 {
		reqs = append(reqs, sc.Requires...)
	}
	for _, cl := range reqs {
		// requirements stated for another property are not checked at call sites under this
		// one (checkPre), so they must not be assumed here either
		if !hasTag(cl.Tags, e.curTags) {
			continue
		}
		ctx.assume(cl.E)
	}
	// vacuity guard: the precondition must be satisfiable
	e.addObl(st, fmt.Sprintf("%s/cover.pre%s#0", key, fr.callPath), "cover", nil, TFalse, "COVER: precondition satisfiable", "")
	old := st.clone()
	fr.old = old
	for _, g := range con.GhostInc {
		cur, _ := e.ghostInit(st, g).(*Term)
		old.ghost[g] = cur
		st.ghost[g] = Add(cur, Num(1))
	}
	for g, val := range con.GhostSet {
		if _, have := old.ghost[g]; !have {
			old.ghost[g] = e.ghostInit(st, g)
		}
		st.ghost[g] = Num(val)
	}
	if ci == 0 {
		names := make([]string, len(fn.Params))
		for i, p := range fn.Params {
			names[i] = p.Name()
			if i < len(con.Params) && con.Params[i] != "" {
				names[i] = con.Params[i]
			}
		}
		e.entries[key] = &EntryInfo{Fn: fn, Args: args, Names: names, ResNames: con.Results, Entry: old, Con: con}
	}
	outs := e.runFunc(fr, st, args, bound)
	for _, o := range outs {
		e.pathCount++
		e.checkPost(fr, con, ci, sc, o, old, key)
		e.addObl(o.st, fmt.Sprintf("%s/cover.path%s#0", key, fr.callPath), "cover", nil, TFalse, "COVER: some return path is feasible", "")
	}
}

func varAddrOrValue(v Value) Value {
	if p, ok := v.(PtrV); ok {
		return varAddr{p}
	}
	return v
}

func (e *Engine) checkPost(fr *Frame, con *Contract, ci int, sc *SpecCase, o Outcome, old *State, key string) {
	ctx := e.ctxFor(o.st, old, con, key)
	ctx.noVars = true
	for k, v := range fr.bind {
		if va, ok := v.(varAddr); ok {
			ctx.bind[k] = e.loadPtr(o.st, va.P)
			continue
		}
		ctx.bind[k] = v
	}
	for i, name := range con.Results {
		if i < len(o.results) {
			ctx.bind[name] = o.results[i]
		}
	}
	ens := sc.Ensures
	for _, cl := range ens {
		if cl.Axiom {
			e.noteAssumption("axiom of " + key + " (assumed, not checked in the body): " + cl.Text)
			continue
		}
		if !hasTag(cl.Tags, e.curTags) {
			continue
		}
		g, note := ctx.goal(cl.E)
		name := fmt.Sprintf("%s/post#%d", key, cl.Ord)
		e.addObl(o.st, name, "post", cl.Tags, g, "postcondition: "+cl.Text+note, fmt.Sprintf("%s:%d", shortFile(cl.File), cl.Line))
	}
	if ci == 0 {
		e.checkFrame(fr, con, o, old, key, ctx)
	}
}

// checkFrame: every object that existed at entry and is not covered by the
// modifies clause must be unchanged.
func (e *Engine) checkFrame(fr *Frame, con *Contract, o Outcome, old *State, key string, ctx *EvalCtx) {
	if con.ModAll {
		return
	}
	octx := *ctx
	octx.st = old
	type mod struct {
		obj  *Obj
		path []interface{}
		all  bool
	}
	var mods []mod
	mapMods := false
	for _, m := range con.Modifies {
		l, ok := octx.loc(m)
		if !ok {
			continue
		}
		switch {
		case l.Ptr != nil:
			mods = append(mods, mod{obj: l.Ptr.Obj, path: l.Ptr.Path})
			// a map-typed location covers the map's content and the objects its values point to
			if mv, isMap := e.loadPtr(old, *l.Ptr).(MapV); isMap && mv.Obj != nil {
				mods = append(mods, mod{obj: mv.Obj, all: true})
				mapMods = true
			}
		case l.All != nil && l.All.Obj != nil:
			mods = append(mods, mod{obj: l.All.Obj, all: true})
		}
	}
	var objs []*Obj
	for ob := range o.st.heap {
		if !ob.Fresh {
			objs = append(objs, ob)
		}
	}
	sort.Slice(objs, func(i, j int) bool { return objs[i].ID < objs[j].ID })
	conj := []*Term{}
	for _, ob := range objs {
		nv := o.st.heap[ob]
		ov, ok := old.heap[ob]
		if !ok {
			ov, ok = e.initHeap[ob]
		}
		if !ok || sameValue(nv, ov) {
			continue
		}
		if mapMods && ob.Name == "mapval" {
			continue
		}
		var rec func(nv, ov Value, path []interface{})
		rec = func(nv, ov Value, path []interface{}) {
			if sameValue(nv, ov) {
				return
			}
			for _, m := range mods {
				if m.obj == ob && (m.all || pathPrefix(m.path, path)) {
					return
				}
			}
			if ns, ok := nv.(StructV); ok {
				if os, ok2 := ov.(StructV); ok2 && len(ns.F) == len(os.F) {
					for i := range ns.F {
						rec(ns.F[i], os.F[i], append(append([]interface{}{}, path...), i))
					}
					return
				}
			}
			if _, isMap := nv.(MapC); isMap {
				conj = append(conj, TFalse)
				return
			}
			conj = append(conj, e.valueEq(o.st, nv, ov))
		}
		rec(nv, ov, nil)
	}
	// ghost frame
	for k, nv := range o.st.ghost {
		if strings.HasPrefix(k, "alloc.") || strings.HasPrefix(k, "rangecount") || e.auxGhost[k] {
			continue
		}
		ov, ok := old.ghost[k]
		if !ok {
			ov = e.initGhostVal(k)
		}
		if sameValue(nv, ov) {
			continue
		}
		listed := false
		for _, g := range con.GhostInc {
			if g == k {
				listed = true
			}
		}
		if _, isSet := con.GhostSet[k]; isSet {
			listed = true
		}
		for _, m := range con.Modifies {
			if f, ok := m.(*EField); ok {
				if id, ok := f.X.(*EIdent); ok && id.Name == "ghost" && f.Name == k {
					listed = true
				}
			}
		}
		if !listed {
			conj = append(conj, e.valueEq(o.st, nv, ov))
		}
	}
	if len(conj) > 0 {
		e.addObl(o.st, key+"/frame#0", "frame", nil, And(conj...), "frame: nothing outside the modifies clause changes", "")
	}
}

func pathPrefix(pre, path []interface{}) bool {
	if len(pre) > len(path) {
		return false
	}
	for i := range pre {
		a, ok1 := pre[i].(int)
		b, ok2 := path[i].(int)
		if ok1 != ok2 {
			return false
		}
		if ok1 && a != b {
			return false
		}
		if !ok1 {
			// index components: treat as covering
			return true
		}
	}
	return true
}
