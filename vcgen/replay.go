package main

// Counterexample candidates and replay against the real code.
//
// 1. A failed obligation is re-asked in a quantifier-free approximation
//    (quantified sub-formulas become fresh Booleans, prelude axioms are dropped,
//    sizes are capped) to obtain a model quickly. The model is only a candidate.
// 2. The candidate's inputs are rendered to JSON and fed to a generated harness
//    that calls the real function inside its own package (go test -overlay).
// 3. The observed outputs are evaluated against the failing contract clause by
//    the concrete interpreter (ceval.go). Only a definite "false" (or a panic for
//    safety obligations) confirms a violation.

import (
	"bytes"
	"encoding/hex"
	"encoding/json"
	"fmt"
	"go/types"
	"os"
	"os/exec"
	"path/filepath"
	"sort"
	"strconv"
	"strings"
	"time"

	"golang.org/x/tools/go/ssa"
)

// ---------- QF approximation ----------

type qfState struct {
	memo     map[*Term]*Term
	n        int
	quantTop bool // replace quantified sub-formulas by true instead of fresh Booleans
}

func (q *qfState) approx(t *Term) *Term {
	if r, ok := q.memo[t]; ok {
		return r
	}
	var r *Term
	switch {
	case t.Op == "forall" || t.Op == "exists":
		q.n++
		if q.quantTop {
			r = TTrue
		} else {
			r = Var(fmt.Sprintf("tq_qabs_%d_%d", t.id, q.n), SBool)
		}
	case len(t.Args) == 0:
		r = t
	default:
		args := make([]*Term, len(t.Args))
		ch := false
		for i, a := range t.Args {
			args[i] = q.approx(a)
			if args[i] != a {
				ch = true
			}
		}
		if ch {
			r = rebuild(t, args, nil)
		} else {
			r = t
		}
	}
	q.memo[t] = r
	return r
}

func declsOnly(text string) string {
	var out []string
	depth := 0
	start := -1
	for i, ch := range text {
		switch ch {
		case '(':
			if depth == 0 {
				start = i
			}
			depth++
		case ')':
			depth--
			if depth == 0 && start >= 0 {
				s := text[start : i+1]
				if strings.HasPrefix(s, "(declare-") {
					out = append(out, s)
				}
				start = -1
			}
		}
	}
	return strings.Join(out, "\n")
}

// ---------- s-expression parsing (solver output) ----------

type sexp struct {
	atom string
	list []*sexp
}

func parseSexps(s string) []*sexp {
	var out []*sexp
	pos := 0
	var parse func() *sexp
	skip := func() {
		for pos < len(s) && (s[pos] == ' ' || s[pos] == '\n' || s[pos] == '\t' || s[pos] == '\r') {
			pos++
		}
	}
	parse = func() *sexp {
		skip()
		if pos >= len(s) {
			return nil
		}
		if s[pos] == '(' {
			pos++
			n := &sexp{list: []*sexp{}}
			for {
				skip()
				if pos >= len(s) {
					return n
				}
				if s[pos] == ')' {
					pos++
					return n
				}
				c := parse()
				if c == nil {
					return n
				}
				n.list = append(n.list, c)
			}
		}
		if s[pos] == '"' {
			j := pos + 1
			for j < len(s) && s[j] != '"' {
				j++
			}
			a := s[pos : j+1]
			pos = j + 1
			return &sexp{atom: a}
		}
		j := pos
		for j < len(s) && s[j] != ' ' && s[j] != '\n' && s[j] != ')' && s[j] != '(' && s[j] != '\t' {
			j++
		}
		a := s[pos:j]
		pos = j
		return &sexp{atom: a}
	}
	for {
		x := parse()
		if x == nil {
			break
		}
		out = append(out, x)
	}
	return out
}

func (x *sexp) intVal() (int64, bool) {
	if x.list == nil {
		n, err := strconv.ParseInt(x.atom, 10, 64)
		return n, err == nil
	}
	if len(x.list) == 2 && x.list[0].atom == "-" {
		n, ok := x.list[1].intVal()
		return -n, ok
	}
	return 0, false
}

// ---------- candidate construction ----------

type leafSet struct {
	terms []*Term
	index map[*Term]int
	vals  []int64
	have  []bool
	bools []bool
}

func (l *leafSet) add(t *Term) {
	if t == nil || t.Num != nil || t == TTrue || t == TFalse {
		return
	}
	if _, ok := l.index[t]; ok {
		return
	}
	l.index[t] = len(l.terms)
	l.terms = append(l.terms, t)
}

func (l *leafSet) intOf(t *Term, def int64) int64 {
	if t == nil {
		return def
	}
	if n, ok := t.Int64(); ok {
		return n
	}
	if i, ok := l.index[t]; ok && l.have != nil && l.have[i] {
		return l.vals[i]
	}
	return def
}

func (l *leafSet) boolOf(t *Term, def bool) bool {
	if t == nil {
		return def
	}
	if t.IsTrue() {
		return true
	}
	if t.IsFalse() {
		return false
	}
	if i, ok := l.index[t]; ok && l.have != nil && l.have[i] {
		return l.bools[i]
	}
	return def
}

const (
	ceMaxLen   = 70000
	ceMaxElems = 300
	cePinBytes = 40
	cePinElems = 6
)

// concretize renders value v of Go type t as JSON input, collecting (collect=true)
// or using the model values of leaf terms.
func (e *Engine) concretize(st *State, v Value, t types.Type, l *leafSet, collect bool, caps *[]*Term, depth int) JVal {
	if depth > 5 {
		return JVal{Nil: true}
	}
	switch x := v.(type) {
	case *Term:
		if x.Sort == SBool {
			if collect {
				l.add(x)
				return JVal{}
			}
			b := l.boolOf(x, false)
			return JVal{B: &b}
		}
		if collect {
			l.add(x)
			return JVal{}
		}
		n := l.intOf(x, 0)
		if isUnsigned(t) {
			u := uint64(n)
			return JVal{U: &u}
		}
		return JVal{N: &n}
	case StrV:
		if collect {
			l.add(x.Len)
			*caps = append(*caps, Le(x.Len, Num(ceMaxLen)))
			for i := int64(0); i < cePinBytes; i++ {
				l.add(Select(x.Arr, Add(x.Off, Num(i))))
			}
			return JVal{}
		}
		n := l.intOf(x.Len, 0)
		if n < 0 {
			n = 0
		}
		if n > ceMaxLen {
			n = ceMaxLen
		}
		b := bytes.Repeat([]byte{'a'}, int(n))
		for i := int64(0); i < cePinBytes && i < n; i++ {
			sel := Select(x.Arr, Add(x.Off, Num(i)))
			if idx, ok := l.index[sel]; ok && l.have[idx] {
				b[i] = byte(l.vals[idx])
			} else if k, ok := sel.Int64(); ok {
				b[i] = byte(k)
			}
		}
		s := hex.EncodeToString(b)
		return JVal{S: &s}
	case SliceV:
		if collect {
			l.add(x.Len)
			l.add(x.Cap)
			l.add(x.Nil)
			*caps = append(*caps, Le(x.Cap, Num(ceMaxLen)))
		}
		if x.Obj == nil {
			return JVal{Nil: true}
		}
		av, _ := e.heapGet(st, x.Obj).(ArrV)
		if isByteSlice(types.NewSlice(x.Elem)) {
			if collect {
				if av.Base != nil {
					for i := int64(0); i < cePinBytes; i++ {
						l.add(Select(av.Base, Add(x.Off, Num(i))))
					}
				}
				return JVal{}
			}
			if l.boolOf(x.Nil, false) {
				return JVal{Nil: true}
			}
			n := l.intOf(x.Len, 0)
			cp := l.intOf(x.Cap, n)
			if n < 0 {
				n = 0
			}
			if n > ceMaxLen {
				n = ceMaxLen
			}
			if cp < n {
				cp = n
			}
			if cp > ceMaxLen+64 {
				cp = ceMaxLen + 64
			}
			b := bytes.Repeat([]byte{'a'}, int(n))
			if av.Base != nil {
				for i := int64(0); i < cePinBytes && i < n; i++ {
					sel := Select(av.Base, Add(x.Off, Num(i)))
					if idx, ok := l.index[sel]; ok && l.have[idx] {
						b[i] = byte(l.vals[idx])
					} else if k, ok := sel.Int64(); ok {
						b[i] = byte(k)
					}
				}
			}
			s := hex.EncodeToString(b)
			return JVal{Y: &s, Cap: int(cp)}
		}
		// other element types: first few elements from the model, rest repeated
		if collect {
			*caps = append(*caps, Le(x.Len, Num(ceMaxElems)))
			for k := int64(0); k < cePinElems; k++ {
				e.concretize(st, av.get(e, st, Add(x.Off, Num(k))), x.Elem, l, true, caps, depth+1)
			}
			return JVal{}
		}
		if l.boolOf(x.Nil, false) {
			return JVal{Nil: true}
		}
		n := l.intOf(x.Len, 0)
		if n < 0 {
			n = 0
		}
		if n > ceMaxElems {
			n = ceMaxElems
		}
		out := JVal{L: []JVal{}}
		var last JVal
		for k := int64(0); k < n; k++ {
			if k < cePinElems {
				last = e.concretize(st, av.get(e, st, Add(x.Off, Num(k))), x.Elem, l, false, caps, depth+1)
			}
			out.L = append(out.L, last)
		}
		return out
	case StructV:
		st2 := under(t).(*types.Struct)
		out := JVal{F: map[string]JVal{}}
		for i := range x.F {
			f := st2.Field(i)
			switch under(f.Type()).(type) {
			case *types.Interface, *types.Signature, *types.Chan, *types.Map:
				continue
			}
			out.F[f.Name()] = e.concretize(st, x.F[i], f.Type(), l, collect, caps, depth+1)
		}
		return out
	case PtrV:
		if collect {
			l.add(x.Nil)
		}
		if x.Obj == nil {
			return JVal{Nil: true}
		}
		if !collect && l.boolOf(x.Nil, false) {
			return JVal{Nil: true}
		}
		inner := e.concretize(st, e.loadPtr(st, x), x.Elem, l, collect, caps, depth+1)
		return JVal{P: &inner}
	}
	return JVal{Nil: true}
}

type Candidate struct {
	Inputs map[string]JVal
	Model  string
}

// findCandidates asks for up to n models of the QF approximation of o.
func (e *Engine) findCandidates(s *Solver, fn *ssa.Function, args []Value, names []string, entry *State, o *Obligation, n int) []Candidate {
	q := &qfState{memo: map[*Term]*Term{}}
	var hyps []*Term
	for _, h := range o.Hyps {
		if h.Op == "forall" || h.Op == "exists" {
			continue
		}
		hyps = append(hyps, q.approx(h))
	}
	goal := q.approx(o.Goal)
	// first try to falsify a ground part of the goal (quantified parts taken as true)
	q2 := &qfState{memo: map[*Term]*Term{}, quantTop: true}
	goalGround := q2.approx(o.Goal)
	l := &leafSet{index: map[*Term]int{}}
	var caps []*Term
	for i, a := range args {
		e.concretize(entry, a, fn.Params[i].Type(), l, true, &caps, 0)
	}
	hyps = append(hyps, caps...)
	// ground instances of the ascii axiom at the pinned byte positions
	asciiTerms := map[*Term]bool{}
	for _, h := range append(append([]*Term{}, hyps...), goal) {
		h.walk(func(t *Term) bool {
			if t.Op == "tq_ascii" {
				asciiTerms[t] = true
			}
			return true
		})
	}
	for at := range asciiTerms {
		for _, lf := range l.terms {
			if lf.Op == "select" && lf.Args[0] == at.Args[0] {
				j := lf.Args[1]
				hyps = append(hyps, Implies(And(at, Le(at.Args[1], j), Lt(j, Add(at.Args[1], at.Args[2]))), Le(lf, Num(127))))
			}
		}
	}
	// ground instances of the select-over-splice axiom (up to four rounds)
	{
		seen := map[*Term]bool{}
		work := append(append([]*Term{}, hyps...), goal, goalGround)
		for round := 0; round < 4; round++ {
			var added []*Term
			for _, h := range work {
				h.walk(func(t *Term) bool {
					if t.Op == "select" && !seen[t] && (t.Args[0].Op == "tq_splice" || t.Args[0].Op == "tq_spliceS") {
						seen[t] = true
						sp := t.Args[0]
						d, o, s, so, n := sp.Args[0], sp.Args[1], sp.Args[2], sp.Args[3], sp.Args[4]
						i := t.Args[1]
						in := And(Le(o, i), Lt(i, Add(o, n)))
						added = append(added, Eq(t, Ite(in, Select(s, Add(so, Sub(i, o))), Select(d, i))))
					}
					return true
				})
			}
			if len(added) == 0 {
				break
			}
			hyps = append(hyps, added...)
			work = added
		}
	}
	var cands []Candidate
	var blocks []*Term
	// targeted attempts: push one numeric bound of the goal just past its limit
	var targets []*Term
	{
		seenT := map[*Term]bool{}
		goalGround.walk(func(t *Term) bool {
			if (t.Op == "<=" || t.Op == "<") && len(t.Args) == 2 && t.Args[1].Num != nil && !t.Args[0].IsNum() && !seenT[t] {
				seenT[t] = true
				lim := t.Args[1]
				if t.Op == "<" {
					lim = Sub(lim, Num(1))
				}
				targets = append(targets, Eq(t.Args[0], Add(lim, Num(1))))
			}
			return true
		})
		if len(targets) > 8 {
			targets = targets[:8]
		}
	}
	useGround := !goalGround.IsTrue()
	total := n + len(targets)
	// the search is a convenience (a failing input makes the report replayable), not part of
	// the verdict: it gets a fixed time budget per obligation
	deadline := time.Now().Add(40 * time.Second)
	for k := 0; k < total; k++ {
		if time.Now().After(deadline) {
			break
		}
		var extra []*Term
		if k >= n {
			extra = []*Term{targets[k-n]}
			blocks = nil
		}
		g := goal
		if useGround {
			g = goalGround
		}
		text := e.smtTextQF(append(append(append([]*Term{}, hyps...), blocks...), extra...), g, l.terms)
		file := filepath.Join(s.workDir, fmt.Sprintf("ce_%s_%d.smt2", sanitize(o.Name), k))
		os.WriteFile(file, []byte(text), 0o644)
		res := runSolver(solverCmds[0], file, 10*time.Second)
		if res.Status != "sat" && useGround && k == 0 {
			useGround = false
			k--
			continue
		}
		if res.Status != "sat" {
			if k >= n-1 {
				if k < n {
					k = n - 1
				}
				continue
			}
			k = n - 1
			continue
		}
		// parse (get-value ...) output: first s-exp after "sat"
		out := res.Output
		if i := strings.Index(out, "\n"); i >= 0 {
			out = out[i+1:]
		}
		xs := parseSexps(out)
		l.vals = make([]int64, len(l.terms))
		l.have = make([]bool, len(l.terms))
		l.bools = make([]bool, len(l.terms))
		idx := 0
		for _, x := range xs {
			for _, pair := range x.list {
				if len(pair.list) != 2 || idx >= len(l.terms) {
					continue
				}
				val := pair.list[1]
				if val.list == nil && (val.atom == "true" || val.atom == "false") {
					l.bools[idx] = val.atom == "true"
					l.have[idx] = true
				} else if nv, ok := val.intVal(); ok {
					l.vals[idx] = nv
					l.have[idx] = true
				}
				idx++
			}
		}
		c := Candidate{Inputs: map[string]JVal{}, Model: file}
		for i, a := range args {
			c.Inputs[names[i]] = e.concretize(entry, a, fn.Params[i].Type(), l, false, &caps, 0)
		}
		cands = append(cands, c)
		if alt, changed := sanitizeCandidate(c); changed {
			cands = append(cands, alt)
		}
		// block this assignment of the integer/bool scalar leaves (not the pinned bytes)
		var diff []*Term
		for i, t := range l.terms {
			if !l.have[i] || t.Op == "select" {
				continue
			}
			if t.Sort == SBool {
				diff = append(diff, Not(Iff(t, Bool(l.bools[i]))))
			} else if t.Sort == SInt {
				diff = append(diff, Ne(t, Num(l.vals[i])))
			}
		}
		if len(diff) == 0 {
			break
		}
		blocks = append(blocks, q.approx(Or(diff...)))
		os.Remove(file)
	}
	return cands
}

// sanitizeCandidate replaces the elements of string lists by a short ASCII default:
// quantified facts about elements are not part of the approximation, so the raw
// model's elements are often arbitrary.
func sanitizeCandidate(c Candidate) (Candidate, bool) {
	changed := false
	var fix func(j JVal) JVal
	fix = func(j JVal) JVal {
		if j.F != nil {
			m := map[string]JVal{}
			for k, v := range j.F {
				m[k] = fix(v)
			}
			j.F = m
		}
		if j.P != nil {
			p := fix(*j.P)
			j.P = &p
		}
		if len(j.L) > 0 && j.L[0].S != nil {
			def := "6162" // "ab"
			nl := make([]JVal, len(j.L))
			for i := range nl {
				d := def
				nl[i] = JVal{S: &d}
			}
			j.L = nl
			changed = true
		}
		return j
	}
	out := Candidate{Inputs: map[string]JVal{}, Model: c.Model + " (list elements replaced by \"ab\")"}
	for k, v := range c.Inputs {
		out.Inputs[k] = fix(v)
	}
	return out, changed
}

func (e *Engine) smtTextQF(hyps []*Term, goal *Term, leaves []*Term) string {
	e.extraTerms = leaves
	full := e.smtText(hyps, goal, true)
	e.extraTerms = nil
	// drop quantified prelude axioms and typing axioms: keep declarations, definitions and ground assertions
	var out bytes.Buffer
	depth := 0
	start := -1
	for i, ch := range full {
		switch ch {
		case '(':
			if depth == 0 {
				start = i
			}
			depth++
		case ')':
			depth--
			if depth == 0 && start >= 0 {
				sx := full[start : i+1]
				start = -1
				if strings.HasPrefix(sx, "(assert (forall") || strings.HasPrefix(sx, "(check-sat") || strings.HasPrefix(sx, "(get-model") {
					continue
				}
				out.WriteString(sx)
				out.WriteString("\n")
			}
		}
	}
	// byte ranges for the pinned selects
	dp := newDagPrinter(leaves)
	dp.pref = "L"
	var tailBuf bytes.Buffer
	for _, t := range leaves {
		if t.Op == "select" && t.Sort == SInt {
			fmt.Fprintf(&tailBuf, "(assert (and (<= 0 %s) (<= %s 255)))\n", dp.pr(t), dp.pr(t))
		}
	}
	tailBuf.WriteString("(check-sat)\n(get-value (")
	for _, t := range leaves {
		tailBuf.WriteString(dp.pr(t) + " ")
	}
	tailBuf.WriteString("))\n")
	// definitions needed by the leaf terms (they may have been hoisted)
	for _, d := range dp.defs {
		out.WriteString(d + "\n")
	}
	out.Write(tailBuf.Bytes())
	return out.String()
}

// ---------- harness generation ----------

type Replay struct {
	Func     string          `json:"function"`
	Inputs   map[string]JVal `json:"inputs"`
	Observed map[string]JVal `json:"observed,omitempty"`
	Panic    string          `json:"panic,omitempty"`
	Verdict  string          `json:"verdict"`
	Clause   string          `json:"clause,omitempty"`
	Detail   string          `json:"detail,omitempty"`
}

func (e *Engine) genHarness(fn *ssa.Function, names []string, resNames []string) (pkgDir string, src string) {
	pkg := fn.Pkg.Pkg
	imports := map[string]string{}
	qual := func(p *types.Package) string {
		if p == pkg {
			return ""
		}
		imports[p.Path()] = p.Name()
		return p.Name()
	}
	var b strings.Builder
	b.WriteString(strings.Replace(harnessSupport, "PKGNAME", pkg.Name(), 1))
	var body strings.Builder
	body.WriteString("\nfunc TestTqvReplay(t *testing.T) {\n\tin := tqvInput(t)\n")
	sig := fn.Signature
	var callArgs []string
	for i, p := range fn.Params {
		ts := types.TypeString(p.Type(), qual)
		fmt.Fprintf(&body, "\tvar p%d %s\n\ttqvFill(reflect.ValueOf(&p%d).Elem(), in[%q])\n", i, ts, i, names[i])
		callArgs = append(callArgs, fmt.Sprintf("p%d", i))
	}
	body.WriteString("\tout := map[string]interface{}{}\n\tfunc() {\n\t\tdefer func() {\n\t\t\tif r := recover(); r != nil {\n\t\t\t\tout[\"panic\"] = fmt.Sprint(r)\n\t\t\t}\n\t\t}()\n")
	var call string
	if sig.Recv() != nil {
		call = fmt.Sprintf("p0.%s(%s)", fn.Name(), strings.Join(callArgs[1:], ", "))
	} else {
		call = fmt.Sprintf("%s(%s)", fn.Name(), strings.Join(callArgs, ", "))
	}
	nres := sig.Results().Len()
	if nres > 0 {
		var rs []string
		for i := 0; i < nres; i++ {
			rs = append(rs, fmt.Sprintf("r%d", i))
		}
		fmt.Fprintf(&body, "\t\t%s := %s\n", strings.Join(rs, ", "), call)
		for i := 0; i < nres; i++ {
			name := fmt.Sprintf("res%d", i)
			if i < len(resNames) {
				name = resNames[i]
			}
			fmt.Fprintf(&body, "\t\tout[%q] = tqvDump(reflect.ValueOf(&r%d).Elem(), 0)\n", name, i)
		}
	} else {
		fmt.Fprintf(&body, "\t\t%s\n", call)
	}
	body.WriteString("\t}()\n")
	for i := range fn.Params {
		fmt.Fprintf(&body, "\tout[%q] = tqvDump(reflect.ValueOf(&p%d).Elem(), 0)\n", "after:"+names[i], i)
	}
	body.WriteString("\ttqvEmit(out)\n}\n")
	src = b.String()
	if len(imports) > 0 {
		var imp strings.Builder
		for path, name := range imports {
			fmt.Fprintf(&imp, "\t%s %q\n", name, path)
		}
		src = strings.Replace(src, "import (\n", "import (\n"+imp.String(), 1)
	}
	src += body.String()
	// directory of the package inside the repo
	rel := strings.TrimPrefix(pkg.Path(), modPath)
	return strings.TrimPrefix(rel, "/"), src
}

// runReplay executes one candidate against the real code.
func (e *Engine) runReplay(repo, workDir string, fn *ssa.Function, names, resNames []string, c Candidate, tag string) (map[string]JVal, string, string, error) {
	pkgRel, src := e.genHarness(fn, names, resNames)
	dir := filepath.Join(workDir, "replay")
	os.MkdirAll(dir, 0o755)
	hfile := filepath.Join(dir, "zz_tqv_replay_"+tag+"_test.go")
	if err := os.WriteFile(hfile, []byte(src), 0o644); err != nil {
		return nil, "", "", err
	}
	inFile := filepath.Join(dir, "input_"+tag+".json")
	ib, _ := json.MarshalIndent(c.Inputs, "", " ")
	os.WriteFile(inFile, ib, 0o644)
	target := filepath.Join(repo, pkgRel, "zz_tqv_replay_test.go")
	ov := map[string]map[string]string{"Replace": {target: hfile}}
	ob, _ := json.Marshal(ov)
	ovFile := filepath.Join(dir, "overlay_"+tag+".json")
	os.WriteFile(ovFile, ob, 0o644)
	pkgPath := "./" + pkgRel
	if pkgRel == "" {
		pkgPath = "."
	}
	cmd := exec.Command("go", "test", "-overlay", ovFile, "-vet=off", "-v", "-count=1", "-timeout", "60s", "-run", "^TestTqvReplay$", pkgPath)
	cmd.Dir = repo
	cmd.Env = append(os.Environ(), "GOFLAGS=-mod=mod", "GOPROXY=off", "GOSUMDB=off", "GOTOOLCHAIN=local", "TQV_REPLAY_INPUT="+inFile)
	var out bytes.Buffer
	cmd.Stdout = &out
	cmd.Stderr = &out
	cmd.Run()
	text := out.String()
	for _, line := range strings.Split(text, "\n") {
		if strings.HasPrefix(line, "TQV-REPLAY ") {
			var m map[string]json.RawMessage
			if err := json.Unmarshal([]byte(line[len("TQV-REPLAY "):]), &m); err != nil {
				return nil, "", text, err
			}
			obs := map[string]JVal{}
			pan := ""
			for k, raw := range m {
				if k == "panic" {
					json.Unmarshal(raw, &pan)
					continue
				}
				var jv JVal
				json.Unmarshal(raw, &jv)
				obs[k] = jv
			}
			return obs, pan, text, nil
		}
	}
	return nil, "", text, fmt.Errorf("no replay output")
}

// judge evaluates clause cl on the observed values: "false" = violated.
func (e *Engine) judge(con *Contract, sc *SpecCase, cl *Clause, names, resNames []string, inputs, obs map[string]JVal, pkg *types.Package) (string, string) {
	ce := &CEval{e: e, cur: map[string]CV{}, old: map[string]CV{}, pkg: pkg}
	for _, n := range names {
		ce.old[n] = jToC(inputs[n])
		if a, ok := obs["after:"+n]; ok {
			ce.cur[n] = jToC(a)
		} else {
			ce.cur[n] = ce.old[n]
		}
	}
	for _, r := range resNames {
		if v, ok := obs[r]; ok {
			ce.cur[r] = jToC(v)
		}
	}
	// preconditions on the pre-state
	pre := &CEval{e: e, cur: ce.old, old: ce.old, pkg: pkg}
	for _, rq := range con.Cases[0].Requires {
		r := pre.eval(rq.E)
		if b, ok := cbool(r); ok && !b {
			return "pre-false", rq.Text
		}
	}
	r := ce.eval(cl.E)
	if b, ok := cbool(r); ok {
		if b {
			return "true", ""
		}
		return "false", ""
	}
	if u, ok := r.(CUnk); ok {
		return "unknown", u.Why
	}
	return "unknown", fmt.Sprintf("%T", r)
}

var _ = sort.Strings
