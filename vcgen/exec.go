package main

import (
	"fmt"
	"go/ast"
	"go/token"
	"go/types"
	"math/big"
	"os"
	"sort"
	"strings"

	"golang.org/x/tools/go/ssa"
)

type Frame struct {
	fn       *ssa.Function
	env      map[ssa.Value]Value
	defers   []deferred
	con      *Contract // contract supplying loop invariants (may be nil)
	top      bool
	depth    int
	callPath string // "" for top, else "@callee" suffix used in obligation names
	visits   map[int]int
	parent   *Frame
	old      *State // entry snapshot (top frame)
	bind     map[string]Value
}

type deferred struct {
	call *ssa.CallCommon
	fnv  Value
	args []Value
	pos  token.Pos
	ins  ssa.Instruction
}

func (f *Frame) clone() *Frame {
	n := *f
	n.env = make(map[ssa.Value]Value, len(f.env))
	for k, v := range f.env {
		n.env[k] = v
	}
	n.defers = append([]deferred(nil), f.defers...)
	n.visits = make(map[int]int, len(f.visits))
	for k, v := range f.visits {
		n.visits[k] = v
	}
	return &n
}

type Outcome struct {
	st       *State
	results  []Value
	panicked bool
}

const maxUnroll = 40
const maxPaths = 20000

// ---------- loops ----------

type loopInfo struct {
	heads  []int                // block indices of loop heads, in block order
	ord    map[int]int          // head block -> 1-based ordinal
	blocks map[int]map[int]bool // head -> set of blocks in the natural loop
}

func (e *Engine) loops(fn *ssa.Function) *loopInfo {
	if li, ok := e.loopCache[fn]; ok {
		return li
	}
	li := &loopInfo{ord: map[int]int{}, blocks: map[int]map[int]bool{}}
	for _, b := range fn.Blocks {
		for _, s := range b.Succs {
			if s.Dominates(b) { // back edge b -> s
				set := li.blocks[s.Index]
				if set == nil {
					set = map[int]bool{s.Index: true}
					li.blocks[s.Index] = set
				}
				// natural loop: nodes that reach b without passing s
				stack := []*ssa.BasicBlock{b}
				for len(stack) > 0 {
					n := stack[len(stack)-1]
					stack = stack[:len(stack)-1]
					if set[n.Index] {
						continue
					}
					set[n.Index] = true
					for _, p := range n.Preds {
						stack = append(stack, p)
					}
				}
			}
		}
	}
	for h := range li.blocks {
		li.heads = append(li.heads, h)
	}
	// order heads by source position of the loop (fallback: block index)
	sort.Slice(li.heads, func(i, j int) bool {
		pi, pj := blockPos(fn.Blocks[li.heads[i]], li.blocks[li.heads[i]], fn), blockPos(fn.Blocks[li.heads[j]], li.blocks[li.heads[j]], fn)
		if pi != pj {
			return pi < pj
		}
		return li.heads[i] < li.heads[j]
	})
	for i, h := range li.heads {
		li.ord[h] = i + 1
	}
	e.loopCache[fn] = li
	return li
}

func blockPos(b *ssa.BasicBlock, set map[int]bool, fn *ssa.Function) token.Pos {
	min := token.Pos(1 << 30)
	for idx := range set {
		for _, ins := range fn.Blocks[idx].Instrs {
			if p := ins.Pos(); p.IsValid() && p < min {
				min = p
			}
			if d, ok := ins.(*ssa.DebugRef); ok {
				if p := d.Expr.Pos(); p.IsValid() && p < min {
					min = p
				}
			}
		}
	}
	return min
}

// ---------- obligation helpers ----------

func (e *Engine) ordinal(fn *ssa.Function, ins ssa.Instruction, kind string) int {
	m := e.ordCache[fn]
	if m == nil {
		m = map[ssa.Instruction]int{}
		counts := map[string]int{}
		for _, b := range fn.Blocks {
			for _, i := range b.Instrs {
				k := instrKind(i)
				counts[k]++
				m[i] = counts[k]
			}
		}
		e.ordCache[fn] = m
	}
	return m[ins]
}

func instrKind(i ssa.Instruction) string {
	switch x := i.(type) {
	case *ssa.Call:
		return "call:" + calleeName(x.Common())
	case *ssa.Defer:
		return "call:" + calleeName(x.Common())
	case *ssa.Go:
		return "call:" + calleeName(x.Common())
	}
	return fmt.Sprintf("%T", i)
}

func calleeName(c *ssa.CallCommon) string {
	if c.IsInvoke() {
		return c.Method.Name()
	}
	switch f := c.Value.(type) {
	case *ssa.Function:
		return funcKey(f)
	case *ssa.Builtin:
		return f.Name()
	case *ssa.MakeClosure:
		return funcKey(f.Fn.(*ssa.Function))
	}
	return "dynamic"
}

func (e *Engine) posStr(p token.Pos) string {
	if !p.IsValid() || e.fset == nil {
		return ""
	}
	ps := e.fset.Position(p)
	f := ps.Filename
	if i := strings.Index(f, "/repo/"); i >= 0 {
		f = f[i+6:]
	}
	return fmt.Sprintf("%s:%d", f, ps.Line)
}

func (e *Engine) oblige(st *State, fr *Frame, kind string, ins ssa.Instruction, goal *Term, desc string) {
	if st.dead {
		return
	}
	ord := 0
	var pos token.Pos
	if ins != nil {
		ord = e.ordinal(fr.fn, ins, kind)
		pos = ins.Pos()
	}
	name := fmt.Sprintf("%s/%s%s#%d", e.curFn, kind, fr.callPath, ord)
	e.addObl(st, name, kind, nil, goal, desc, e.posStr(pos))
}

func (e *Engine) addObl(st *State, name, kind string, tags []string, goal *Term, desc, pos string) {
	if st.dead {
		return
	}
	o := &Obligation{Name: name, Kind: kind, Tags: tags, Goal: goal, Desc: desc, Pos: pos, Path: e.pathCount}
	o.Hyps = append([]*Term(nil), st.pc...)
	if os.Getenv("TQV_DEBUG") == "assume" && strings.Contains(name, "safe.nil#1") {
		fmt.Fprintf(os.Stderr, "OBL %s goal=%s npc=%d\n", name, goal, len(st.pc))
		for i, h := range st.pc {
			if i < 6 {
				fmt.Fprintf(os.Stderr, "   pc[%d]=%s\n", i, h)
			}
		}
	}
	e.obls = append(e.obls, o)
}

// ---------- running ----------

func (e *Engine) val(fr *Frame, st *State, v ssa.Value) Value {
	switch x := v.(type) {
	case *ssa.Const:
		return e.constValue(x.Type(), x.Value)
	case *ssa.Function:
		return FuncV{Fn: x, Nil: TFalse, Sig: x.Signature}
	case *ssa.Builtin:
		return FuncV{Fn: x, Nil: TFalse}
	case *ssa.Global:
		return e.globalPtr(x)
	}
	if r, ok := fr.env[v]; ok {
		return r
	}
	e.toolError("use of undefined SSA value %s (%T) in %s", v.Name(), v, fr.fn.Name())
	r := e.fresh(st, v.Type(), "undef_"+v.Name())
	fr.env[v] = r
	return r
}

func (e *Engine) globalPtr(g *ssa.Global) PtrV {
	o, ok := e.globals[g]
	elem := g.Type().(*types.Pointer).Elem()
	if !ok {
		o = e.newObj("global_"+g.Name(), elem, false)
		e.globals[g] = o
		// package-level variables only assigned during package init keep their
		// initial (non-nil) value: assume non-nil for pointer/interface globals
		if e.initOnlyGlobal(g) {
			tmp := &State{}
			v := e.fresh(tmp, elem, "global_"+g.Name())
			switch x := v.(type) {
			case IfaceV:
				tmp.assume(Not(x.Sym.Nil))
				e.globalRefs = append(e.globalRefs, x.Sym.Ref.VarName())
			case PtrV:
				tmp.assume(Not(x.Nil))
			}
			e.initHeap[o] = v
			e.lazyFacts[o] = tmp.pc
			e.noteAssumption("package-level variable " + g.String() + " is assigned only in package init and assumed non-nil there")
		}
	}
	return PtrV{Obj: o, Nil: TFalse, Elem: elem}
}

var initOnlyCache map[*ssa.Global]bool

func (e *Engine) initOnlyGlobal(g *ssa.Global) bool {
	if initOnlyCache == nil {
		initOnlyCache = map[*ssa.Global]bool{}
		written := map[*ssa.Global]bool{}
		inited := map[*ssa.Global]bool{}
		for _, fn := range e.funcsByK {
			e.scanGlobalStores(fn, written, inited)
		}
		for _, p := range e.prog.AllPackages() {
			if f := p.Func("init"); f != nil {
				e.scanGlobalStores(f, written, inited)
			}
		}
		for gg := range inited {
			if !written[gg] {
				initOnlyCache[gg] = true
			}
		}
	}
	return initOnlyCache[g]
}

func (e *Engine) scanGlobalStores(fn *ssa.Function, written, inited map[*ssa.Global]bool) {
	isInit := fn.Name() == "init" || strings.HasPrefix(fn.Name(), "init#")
	for _, b := range fn.Blocks {
		for _, ins := range b.Instrs {
			if s, ok := ins.(*ssa.Store); ok {
				if g, ok := s.Addr.(*ssa.Global); ok {
					if isInit {
						if c, isConst := s.Val.(*ssa.Const); !(isConst && c.Value == nil) {
							inited[g] = true
						}
					} else {
						written[g] = true
					}
				}
			}
		}
	}
	for _, a := range fn.AnonFuncs {
		e.scanGlobalStores(a, written, inited)
	}
}

// runFunc executes fn from its entry.
func (e *Engine) runFunc(fr *Frame, st *State, args []Value, bound []Value) []Outcome {
	fn := fr.fn
	if len(fn.Blocks) == 0 {
		e.toolError("no body for %s", fn.String())
		return nil
	}
	for i, p := range fn.Params {
		if i < len(args) {
			fr.env[p] = args[i]
		}
	}
	for i, fv := range fn.FreeVars {
		if i < len(bound) {
			fr.env[fv] = bound[i]
		}
	}
	return e.run(fr, st, fn.Blocks[0], 0, nil)
}

// run executes from instruction idx of block b. prev is the predecessor block
// when entering b at idx 0 (for phis).
func (e *Engine) run(fr *Frame, st *State, b *ssa.BasicBlock, idx int, prev *ssa.BasicBlock) []Outcome {
	for {
		if st.dead || len(e.errors) > 50 {
			return nil
		}
		if idx == 0 && prev != nil {
			cont, done := e.enterBlock(fr, st, b, prev)
			if done {
				return nil
			}
			_ = cont
		}
		var nextB *ssa.BasicBlock
		for i := idx; i < len(b.Instrs); i++ {
			ins := b.Instrs[i]
			switch x := ins.(type) {
			case *ssa.Phi:
				continue // handled in enterBlock
			case *ssa.If:
				c := e.val(fr, st, x.Cond).(*Term)
				if c.IsTrue() {
					nextB = b.Succs[0]
				} else if c.IsFalse() {
					nextB = b.Succs[1]
				} else if d, ok := e.decided(st, c); ok {
					if d {
						nextB = b.Succs[0]
					} else {
						nextB = b.Succs[1]
					}
				} else {
					st2 := st.clone()
					fr2 := fr.clone()
					st.assume(c)
					st2.assume(Not(c))
					e.pathCount++
					if e.pathCount > maxPaths {
						e.toolError("path limit exceeded")
						return nil
					}
					o1 := e.run(fr, st, b.Succs[0], 0, b)
					o2 := e.run(fr2, st2, b.Succs[1], 0, b)
					return append(o1, o2...)
				}
			case *ssa.Jump:
				nextB = b.Succs[0]
			case *ssa.Return:
				res := make([]Value, len(x.Results))
				for k, r := range x.Results {
					res[k] = e.val(fr, st, r)
				}
				return []Outcome{{st: st, results: res}}
			case *ssa.Panic:
				e.oblige(st, fr, "safe.panic", ins, TFalse, "explicit panic reachable")
				return nil
			case *ssa.Call:
				outs := e.doCall(fr, st, x.Common(), ins, x)
				if len(outs) == 0 {
					// a path that ends at a call is either a callee that never returns or a
					// contract clause that cannot hold there: say so in the evidence (vacuity guard)
					e.noteAssumption(fmt.Sprintf("a path of %s ends at its call of %s: no outcome of the callee is feasible there (callee never returns, or a contract clause is contradictory at this call site)", funcKey(fr.fn), calleeName(x.Common())))
				}
				if len(outs) == 0 && os.Getenv("TQV_DEBUG") != "" {
					fmt.Fprintf(os.Stderr, "path ends at call %s in %s (%s)\n", calleeName(x.Common()), funcKey(fr.fn), e.posStr(ins.Pos()))
				}
				if len(outs) == 1 && outs[0].st == st {
					if x.Type() != nil {
						fr.env[x] = tupleOrSingle(outs[0].results, x)
					}
					continue
				}
				var all []Outcome
				for k, o := range outs {
					f2 := fr
					if k < len(outs)-1 {
						f2 = fr.clone()
					}
					f2.env[x] = tupleOrSingle(o.results, x)
					all = append(all, e.run(f2, o.st, b, i+1, nil)...)
				}
				return all
			case *ssa.RunDefers:
				outs := e.runDefers(fr, st)
				if len(outs) == 1 && outs[0] == st {
					continue
				}
				var all []Outcome
				for k, s2 := range outs {
					f2 := fr
					if k < len(outs)-1 {
						f2 = fr.clone()
					}
					all = append(all, e.run(f2, s2, b, i+1, nil)...)
				}
				return all
			default:
				forks := e.step(fr, st, ins)
				if forks != nil {
					var all []Outcome
					for k, fk := range forks {
						f2 := fr
						if k < len(forks)-1 {
							f2 = fr.clone()
						}
						if fk.set != nil {
							f2.env[fk.set] = fk.val
						}
						all = append(all, e.run(f2, fk.st, b, i+1, nil)...)
					}
					return all
				}
			}
			if nextB != nil {
				break
			}
		}
		if nextB == nil {
			e.toolError("fell off block %d of %s", b.Index, fr.fn.Name())
			return nil
		}
		prev, b, idx = b, nextB, 0
	}
}

func tupleOrSingle(res []Value, x *ssa.Call) Value {
	if _, ok := x.Type().(*types.Tuple); ok {
		return TupleV(res)
	}
	if len(res) == 1 {
		return res[0]
	}
	if len(res) == 0 {
		return nil
	}
	return TupleV(res)
}

// decided: cheap syntactic check whether c or !c is already on the path.
func (e *Engine) decided(st *State, c *Term) (bool, bool) {
	nc := Not(c)
	for i := len(st.pc) - 1; i >= 0 && i >= len(st.pc)-400; i-- {
		if st.pc[i] == c {
			return true, true
		}
		if st.pc[i] == nc {
			return false, true
		}
	}
	return false, false
}

type fork struct {
	st  *State
	set ssa.Value
	val Value
}

// enterBlock assigns phis and handles loop heads. done=true ends the path.
func (e *Engine) enterBlock(fr *Frame, st *State, b, prev *ssa.BasicBlock) (bool, bool) {
	li := e.loops(fr.fn)
	// leaving loops: clear inLoop flags of loops that do not contain b
	for h := range st.inLoop {
		if hk := h - loopKeyBase(fr); hk >= 0 && hk < 100000 {
			if set := li.blocks[hk]; set != nil && !set[b.Index] {
				delete(st.inLoop, h)
			}
		}
	}
	// edge index
	pi := -1
	for k, p := range b.Preds {
		if p == prev {
			pi = k
		}
	}
	var phis []*ssa.Phi
	for _, ins := range b.Instrs {
		if p, ok := ins.(*ssa.Phi); ok {
			phis = append(phis, p)
		} else {
			break
		}
	}
	vals := make([]Value, len(phis))
	for k, p := range phis {
		vals[k] = e.val(fr, st, p.Edges[pi])
	}
	assign := func() {
		for k, p := range phis {
			fr.env[p] = vals[k]
			if p.Comment != "" {
				st.vars[p.Comment] = vals[k]
			}
		}
	}
	ord, isHead := li.ord[b.Index]
	if !isHead {
		assign()
		return true, false
	}
	key := loopKeyBase(fr) + b.Index
	var inv []*Clause
	if fr.con != nil {
		inv = fr.con.Loops[ord]
	}
	if len(inv) == 0 {
		assign()
		if _, symbolic := e.autoInv2(fr, st, b, phis, li.blocks[b.Index]); symbolic || st.inLoop[key] {
			// a counting loop with a symbolic bound and no written invariant: cut it with the
			// inferred bounds only (autoinv.go)
			if st.inLoop[key] {
				e.checkAutoInv(fr, st, ord, e.autoInv(fr, st, b, phis, li.blocks[b.Index]), "keep")
				return false, true
			}
			e.checkAutoInv(fr, st, ord, e.autoInv(fr, st, b, phis, li.blocks[b.Index]), "init")
			e.havocLoop(fr, st, b, phis, li.blocks[b.Index])
			st.inLoop[key] = true
			for _, t := range e.autoInv(fr, st, b, phis, li.blocks[b.Index]) {
				st.assume(t)
			}
			return true, false
		}
		// unrolled loop
		fr.visits[b.Index]++
		if fr.visits[b.Index] > maxUnroll {
			e.toolError("loop %d of %s needs an invariant (unrolled %d times)", ord, funcKey(fr.fn), maxUnroll)
			return false, true
		}
		return true, false
	}
	assign()
	if st.inLoop[key] {
		// back edge: invariant must be preserved; path ends
		e.checkAutoInv(fr, st, ord, e.autoInv(fr, st, b, phis, li.blocks[b.Index]), "keep")
		e.checkInvariant(fr, st, ord, inv, "keep")
		return false, true
	}
	e.checkAutoInv(fr, st, ord, e.autoInv(fr, st, b, phis, li.blocks[b.Index]), "init")
	e.checkInvariant(fr, st, ord, inv, "init")
	// havoc loop targets, assume invariant, continue from the head
	e.havocLoop(fr, st, b, phis, li.blocks[b.Index])
	st.inLoop[key] = true
	for _, t := range e.autoInv(fr, st, b, phis, li.blocks[b.Index]) {
		st.assume(t)
	}
	e.assumeInvariant(fr, st, ord, inv)
	return true, false
}

func loopKeyBase(fr *Frame) int { return fr.depth * 100000 }

// step executes a non-control instruction. A non-nil result forks the path.
func (e *Engine) step(fr *Frame, st *State, ins ssa.Instruction) []fork {
	switch x := ins.(type) {
	case *ssa.DebugRef:
		if id, ok := x.Expr.(*ast.Ident); ok && x.X != nil {
			if _, isVar := x.Object().(*types.Var); isVar {
				v := e.val(fr, st, x.X)
				if x.IsAddr {
					st.vars[id.Name] = varAddr{v.(PtrV)}
				} else if _, isAddr := st.vars[id.Name].(varAddr); !isAddr {
					st.vars[id.Name] = v
				}
			}
		}
	case *ssa.Alloc:
		elem := x.Type().(*types.Pointer).Elem()
		var o *Obj
		name := x.Comment
		if name == "" {
			name = "alloc"
		}
		if at, ok := under(elem).(*types.Array); ok {
			o = e.newObj(name, at.Elem(), true)
			st.heap[o] = e.zeroArr(at.Elem()).markZero()
		} else {
			o = e.newObj(name, elem, false)
			st.heap[o] = e.zero(elem)
		}
		o.Fresh = true
		fr.env[x] = PtrV{Obj: o, Nil: TFalse, Elem: elem}
		if x.Comment != "" && !x.Heap || (x.Comment != "" && x.Comment != "complit" && x.Comment != "varargs" && x.Comment != "slicelit" && x.Comment != "new") {
			st.vars[x.Comment] = varAddr{PtrV{Obj: o, Nil: TFalse, Elem: elem}}
		}
	case *ssa.Store:
		p := e.val(fr, st, x.Addr).(PtrV)
		e.nilCheck(fr, st, ins, p.Nil, "store through nil pointer")
		e.storePtr(st, p, e.val(fr, st, x.Val))
	case *ssa.UnOp:
		return e.unop(fr, st, x)
	case *ssa.BinOp:
		fr.env[x] = e.binop(fr, st, x, x.Op, e.val(fr, st, x.X), e.val(fr, st, x.Y), x.X.Type(), x.Type())
	case *ssa.Convert:
		fr.env[x] = e.convert(fr, st, x, e.val(fr, st, x.X), x.X.Type(), x.Type())
	case *ssa.ChangeType:
		fr.env[x] = e.val(fr, st, x.X)
	case *ssa.MakeInterface:
		fr.env[x] = IfaceV{Dyn: x.X.Type(), V: e.val(fr, st, x.X)}
	case *ssa.ChangeInterface:
		fr.env[x] = e.val(fr, st, x.X)
	case *ssa.TypeAssert:
		return e.typeAssert(fr, st, x)
	case *ssa.Extract:
		fr.env[x] = e.val(fr, st, x.Tuple).(TupleV)[x.Index]
	case *ssa.Field:
		fr.env[x] = e.val(fr, st, x.X).(StructV).F[x.Field]
	case *ssa.FieldAddr:
		p := e.val(fr, st, x.X).(PtrV)
		e.nilCheck(fr, st, ins, p.Nil, "field address of nil pointer")
		st1 := under(p.Elem).(*types.Struct)
		np := PtrV{Obj: p.Obj, Path: append(append([]interface{}{}, p.Path...), x.Field), Nil: TFalse, Elem: st1.Field(x.Field).Type()}
		fr.env[x] = np
	case *ssa.IndexAddr:
		fr.env[x] = e.indexAddr(fr, st, x)
	case *ssa.Index:
		xv := e.val(fr, st, x.X)
		iv := e.val(fr, st, x.Index).(*Term)
		switch a := xv.(type) {
		case ArrV:
			fr.env[x] = a.get(e, st, iv)
		case StrV:
			e.oblige(st, fr, "safe.index", ins, And(Le(Num(0), iv), Lt(iv, a.Len)), "string index out of range")
			r := Select(a.Arr, Add(a.Off, iv))
			if r.Hi == nil {
				r.Hi = big.NewInt(255)
			}
			fr.env[x] = r
		default:
			e.toolError("Index on %T", xv)
			fr.env[x] = e.fresh(st, x.Type(), "idx")
		}
	case *ssa.Lookup:
		fr.env[x] = e.lookup(fr, st, x)
	case *ssa.Slice:
		fr.env[x] = e.sliceOp(fr, st, x)
	case *ssa.MakeSlice:
		ln := e.val(fr, st, x.Len).(*Term)
		cp := e.val(fr, st, x.Cap).(*Term)
		elem := under(x.Type()).(*types.Slice).Elem()
		e.oblige(st, fr, "safe.alloc", ins, And(Le(Num(0), ln), Le(ln, cp)), "make: 0 <= len <= cap")
		o := e.newObj("make", elem, true)
		o.Fresh = true
		st.heap[o] = e.zeroArr(elem).markZero()
		fr.env[x] = SliceV{Obj: o, Off: Num(0), Len: ln, Cap: cp, Nil: TFalse, Elem: elem}
		st.ghostAlloc(e, ln, cp, elem)
	case *ssa.MakeClosure:
		bd := make([]Value, len(x.Bindings))
		for k, bv := range x.Bindings {
			bd[k] = e.val(fr, st, bv)
		}
		fn := x.Fn.(*ssa.Function)
		fr.env[x] = FuncV{Fn: fn, Bound: bd, Nil: TFalse, Sig: fn.Signature}
	case *ssa.MakeMap:
		mt := under(x.Type()).(*types.Map)
		o := e.newObj("map", x.Type(), false)
		o.Fresh = true
		st.heap[o] = e.emptyMap(mt)
		fr.env[x] = MapV{Obj: o, Nil: TFalse, T: mt}
	case *ssa.MapUpdate:
		e.mapUpdate(fr, st, x)
	case *ssa.MakeChan:
		fr.env[x] = OpaqueV{Ref: e.freshVar("chan", SRef), T: x.Type()}
	case *ssa.Send:
		e.event(st, "send")
		cur, ok := st.ghost["sends"].(*Term)
		if !ok {
			cur, _ = e.ghostInit(st, "sends").(*Term)
		}
		st.ghost["sends"] = Add(cur, Num(1))
		st.ghost["lastSent"] = e.val(fr, st, x.X) // value of the most recent channel send
		if ch, ok := e.val(fr, st, x.Chan).(OpaqueV); ok && ch.Ref != nil {
			e.oblige(st, fr, "safe.close", ins, Bool(!st.closedCh[ch.Ref.String()]), "send on a channel closed on this path")
		}
	case *ssa.Select:
		// nondeterministic choice among states (and default when non-blocking)
		tt := x.Type().(*types.Tuple)
		tv := make(TupleV, tt.Len())
		idx := e.freshVar("select", SInt)
		lo := int64(0)
		if !x.Blocking {
			lo = -1
		}
		st.assume(Le(Num(lo), idx))
		st.assume(Lt(idx, Num(int64(len(x.States)))))
		tv[0] = idx
		for k := 1; k < tt.Len(); k++ {
			tv[k] = e.fresh(st, tt.At(k).Type(), "selrecv")
		}
		fr.env[x] = tv
	case *ssa.Range:
		fr.env[x] = e.rangeInit(fr, st, x)
	case *ssa.Next:
		return e.rangeNext(fr, st, x)
	case *ssa.Defer:
		c := x.Common()
		d := deferred{call: c, pos: x.Pos(), ins: ins}
		if !c.IsInvoke() {
			d.fnv = e.val(fr, st, c.Value)
		} else {
			d.fnv = e.val(fr, st, c.Value)
		}
		for _, a := range c.Args {
			d.args = append(d.args, e.val(fr, st, a))
		}
		fr.defers = append(fr.defers, d)
	case *ssa.Go:
		e.goStmt(fr, st, x)
	case *ssa.MultiConvert, *ssa.SliceToArrayPointer:
		e.toolError("unsupported instruction %T", ins)
		if v, ok := ins.(ssa.Value); ok {
			fr.env[v] = e.fresh(st, v.Type(), "unsup")
		}
	default:
		e.toolError("unsupported instruction %T", ins)
	}
	return nil
}

type varAddr struct{ P PtrV }

func (st *State) ghostAlloc(e *Engine, ln, cp *Term, elem types.Type) {
	// allocation accounting: largest single allocation on the path (elements)
	cur, _ := st.ghost["alloc.max"].(*Term)
	if cur == nil {
		cur = Num(0)
	}
	st.ghost["alloc.max"] = Ite(Le(cur, cp), cp, cur)
}

func (e *Engine) event(st *State, s string) { st.events = append(st.events, s) }

func (e *Engine) nilCheck(fr *Frame, st *State, ins ssa.Instruction, nilT *Term, desc string) {
	if nilT == nil || nilT.IsFalse() {
		return
	}
	e.oblige(st, fr, "safe.nil", ins, Not(nilT), desc)
	st.assume(Not(nilT))
}

func (e *Engine) unop(fr *Frame, st *State, x *ssa.UnOp) []fork {
	v := e.val(fr, st, x.X)
	switch x.Op {
	case token.MUL:
		p := v.(PtrV)
		e.nilCheck(fr, st, x, p.Nil, "load through nil pointer")
		fr.env[x] = e.loadPtr(st, p)
	case token.NOT:
		fr.env[x] = Not(v.(*Term))
	case token.SUB:
		r := Neg(v.(*Term))
		fr.env[x] = e.wrap(fr, st, x, r, x.Type())
	case token.XOR:
		t := v.(*Term)
		if isUnsigned(x.Type()) {
			_, hi := intRange(x.Type())
			fr.env[x] = Sub(NumB(hi), t)
		} else {
			fr.env[x] = Sub(Num(-1), t)
		}
	case token.ARROW:
		if x.CommaOk {
			tt := x.Type().(*types.Tuple)
			fr.env[x] = TupleV{e.fresh(st, tt.At(0).Type(), "recv"), e.freshVar("recvok", SBool)}
		} else {
			fr.env[x] = e.fresh(st, x.Type(), "recv")
		}
		e.event(st, "recv")
	default:
		e.toolError("unop %s", x.Op)
		fr.env[x] = e.fresh(st, x.Type(), "unop")
	}
	return nil
}

// wrap applies machine-integer semantics to a mathematical result r of type t:
// narrow unsigned types wrap (mod 2^n); int/int64/uint/uint64 get an overflow
// side obligation and stay mathematical.
func (e *Engine) wrap(fr *Frame, st *State, ins ssa.Instruction, r *Term, t types.Type) *Term {
	if !isInteger(t) {
		return r
	}
	lo, hi := intRange(t)
	if r.Num != nil {
		if r.Num.Cmp(lo) >= 0 && r.Num.Cmp(hi) <= 0 {
			return r
		}
	}
	bits := intBits(t)
	if isUnsigned(t) {
		// unsigned arithmetic wraps by definition (no panic, no obligation)
		if r.Hi != nil && r.Hi.Cmp(hi) <= 0 && !mayBeNegative(r) {
			return r
		}
		return Mod(r, Pow2(bits))
	}
	if r.Hi != nil && r.Hi.Cmp(hi) <= 0 && !mayBeNegative(r) {
		return r
	}
	e.oblige(st, fr, "safe.overflow", ins, And(Le(NumB(lo), r), Le(r, NumB(hi))), "integer overflow")
	return r
}

func mayBeNegative(r *Term) bool {
	// Hi is only set on terms known to be >= 0
	return r.Hi == nil
}

func (e *Engine) binop(fr *Frame, st *State, ins ssa.Instruction, op token.Token, a, b Value, opT, resT types.Type) Value {
	switch x := a.(type) {
	case *Term:
		y, ok := b.(*Term)
		if !ok {
			break
		}
		if x.Sort == SBool {
			switch op {
			case token.EQL:
				return Iff(x, y)
			case token.NEQ:
				return Not(Iff(x, y))
			case token.AND, token.LAND:
				return And(x, y)
			case token.OR, token.LOR:
				return Or(x, y)
			}
			break
		}
		if x.Sort != SInt {
			switch op {
			case token.EQL:
				return Eq(x, y)
			case token.NEQ:
				return Ne(x, y)
			}
			break
		}
		switch op {
		case token.EQL:
			return Eq(x, y)
		case token.NEQ:
			return Ne(x, y)
		case token.LSS:
			return Lt(x, y)
		case token.LEQ:
			return Le(x, y)
		case token.GTR:
			return Gt(x, y)
		case token.GEQ:
			return Ge(x, y)
		case token.ADD:
			return e.wrap(fr, st, ins, Add(x, y), resT)
		case token.SUB:
			r := Sub(x, y)
			if isUnsigned(resT) {
				return Mod(r, Pow2(intBits(resT)))
			}
			return e.wrap(fr, st, ins, r, resT)
		case token.MUL:
			return e.wrap(fr, st, ins, Mul(x, y), resT)
		case token.QUO:
			e.oblige(st, fr, "safe.div", ins, Ne(y, Num(0)), "division by zero")
			if isUnsigned(opT) || (x.Hi != nil && y.Hi != nil) {
				return Div(x, y)
			}
			// Go truncates toward zero
			q := Div(App("abs", SInt, x), App("abs", SInt, y))
			return Ite(Eq(Lt(x, Num(0)), Lt(y, Num(0))), q, Neg(q))
		case token.REM:
			e.oblige(st, fr, "safe.div", ins, Ne(y, Num(0)), "division by zero")
			if isUnsigned(opT) || (x.Hi != nil && y.Hi != nil) {
				return Mod(x, y)
			}
			m := Mod(App("abs", SInt, x), App("abs", SInt, y))
			return Ite(Lt(x, Num(0)), Neg(m), m)
		case token.SHL:
			if k, ok := y.Int64(); ok && k >= 0 && k < 64 {
				r := Mul(x, Pow2(int(k)))
				if x.Hi != nil {
					r.Hi = new(big.Int).Lsh(x.Hi, uint(k))
					r.Tz = x.Tz + int(k)
					if r.Tz > 64 {
						r.Tz = 64
					}
				}
				bits := intBits(resT)
				if isUnsigned(resT) || bits < 64 {
					_, hi := intRange(resT)
					if r.Hi != nil && r.Hi.Cmp(hi) <= 0 {
						return r
					}
					if isUnsigned(resT) {
						return Mod(r, Pow2(bits))
					}
				}
				return e.wrap(fr, st, ins, r, resT)
			}
		case token.SHR:
			if k, ok := y.Int64(); ok && k >= 0 && k < 64 {
				return Div(x, Pow2(int(k)))
			}
		case token.AND:
			if r := bitAnd(x, y); r != nil {
				return r
			}
			if r := bitAnd(y, x); r != nil {
				return r
			}
		case token.OR:
			if r := bitOr(x, y); r != nil {
				return r
			}
			if r := bitOr(y, x); r != nil {
				return r
			}
		case token.AND_NOT:
			if c, ok := y.Int64(); ok && c > 0 && c&(c-1) == 0 {
				// clear single bit k: x - bit_k(x)*2^k
				bit := Mod(Div(x, Num(c)), Num(2))
				return Sub(x, Mul(bit, Num(c)))
			}
		case token.XOR:
			if x.Hi != nil && y.Hi != nil && x.Hi.Cmp(big.NewInt(255)) <= 0 && y.Hi.Cmp(big.NewInt(255)) <= 0 {
				r := App("tq_xor8", SInt, x, y)
				r.Hi = big.NewInt(255)
				return r
			}
		}
		if r := bitExpand(op, x, y); r != nil {
			return r
		}
		e.noteAssumption(fmt.Sprintf("bit operation %s on symbolic operands left uninterpreted in %s", op, funcKey(fr.fn)))
		r := App("tq_bitop_"+sanitize(op.String()), SInt, x, y)
		if isUnsigned(resT) {
			_, hi := intRange(resT)
			r.Hi = hi
		}
		return r
	case StrV:
		y, ok := b.(StrV)
		if !ok {
			break
		}
		switch op {
		case token.EQL:
			return e.strEq(x, y)
		case token.NEQ:
			return Not(e.strEq(x, y))
		case token.ADD:
			return e.strConcat(st, x, y)
		default:
			// ordering comparisons: uninterpreted
			return App("tq_strcmp_"+sanitize(op.String()), SBool, strTerm(x), strTerm(y))
		}
	case PtrV:
		y, ok := b.(PtrV)
		if !ok {
			break
		}
		eq := e.ptrEq(x, y)
		if op == token.EQL {
			return eq
		}
		return Not(eq)
	case IfaceV:
		y, ok := b.(IfaceV)
		if !ok {
			break
		}
		eq := e.ifaceEq(st, x, y)
		if op == token.EQL {
			return eq
		}
		return Not(eq)
	case SliceV:
		// only comparison with nil is legal
		if op == token.EQL {
			return x.Nil
		}
		return Not(x.Nil)
	case MapV:
		if op == token.EQL {
			return x.Nil
		}
		return Not(x.Nil)
	case FuncV:
		if op == token.EQL {
			return x.Nil
		}
		return Not(x.Nil)
	case OpaqueV:
		if y, ok := b.(OpaqueV); ok {
			if op == token.EQL {
				return Eq(x.Ref, y.Ref)
			}
			return Ne(x.Ref, y.Ref)
		}
	case StructV:
		if y, ok := b.(StructV); ok {
			eq := e.valueEq(st, x, y)
			if op == token.EQL {
				return eq
			}
			return Not(eq)
		}
	}
	// comparisons against nil constants of the other kinds
	if sv, ok := b.(SliceV); ok {
		if _, isNilA := a.(SliceV); !isNilA {
			_ = sv
		}
	}
	e.toolError("binop %s on %T,%T in %s", op, a, b, funcKey(fr.fn))
	return e.fresh(st, resT, "binop")
}

// bitExpand: exact bit-by-bit definition of &, |, ^, &^ for operands known to
// fit in 16 bits (bit_k(x) = (x div 2^k) mod 2).
func bitExpand(op token.Token, x, y *Term) *Term {
	if x.Hi == nil || y.Hi == nil {
		return nil
	}
	n := x.Hi.BitLen()
	if y.Hi.BitLen() > n {
		n = y.Hi.BitLen()
	}
	if n > 16 {
		return nil
	}
	bit := func(t *Term, k int) *Term { return Mod(Div(t, Pow2(k)), Num(2)) }
	sum := Num(0)
	for k := 0; k < n; k++ {
		a, b := bit(x, k), bit(y, k)
		var r *Term
		switch op {
		case token.AND:
			r = Ite(Eq(Add(a, b), Num(2)), Num(1), Num(0))
		case token.OR:
			r = Ite(Ge(Add(a, b), Num(1)), Num(1), Num(0))
		case token.XOR:
			r = Ite(Eq(Add(a, b), Num(1)), Num(1), Num(0))
		case token.AND_NOT:
			r = Ite(And(Eq(a, Num(1)), Eq(b, Num(0))), Num(1), Num(0))
		default:
			return nil
		}
		sum = Add(sum, Mul(r, Pow2(k)))
	}
	sum.Hi = new(big.Int).Sub(new(big.Int).Lsh(big.NewInt(1), uint(n)), big.NewInt(1))
	return sum
}

// bitAnd: x & c for constant masks.
func bitAnd(x, c *Term) *Term {
	k, ok := c.Int64()
	if !ok || k < 0 {
		return nil
	}
	if k == 0 {
		return Num(0)
	}
	// low mask 2^n - 1
	if (k+1)&k == 0 {
		return Mod(x, Num(k+1))
	}
	// single bit 2^n
	if k&(k-1) == 0 {
		return Mul(Mod(Div(x, Num(k)), Num(2)), Num(k))
	}
	// high mask within a byte, e.g. 0xf0: x - x mod 16 (for x <= 255)
	if x.Hi != nil {
		low := k & -k // lowest set bit
		rest := k + low - 1
		// k is a contiguous run of ones from bit(low) up to the top of x's range
		if (rest+1)&rest == 0 && x.Hi.Cmp(big.NewInt(rest)) <= 0 {
			return Sub(x, Mod(x, Num(low)))
		}
	}
	return nil
}

// bitOr: x | y when the operands occupy disjoint bit ranges.
func bitOr(x, y *Term) *Term {
	if x.Num != nil && x.Num.Sign() == 0 {
		return y
	}
	// x < 2^k and y multiple of 2^k
	if x.Hi != nil && y.Tz > 0 {
		if x.Hi.BitLen() <= y.Tz {
			return Add(y, x)
		}
	}
	// y is a single-bit constant: x + (1 - bit)*c
	if c, ok := y.Int64(); ok && c > 0 && c&(c-1) == 0 {
		bit := Mod(Div(x, Num(c)), Num(2))
		r := Add(x, Mul(Sub(Num(1), bit), Num(c)))
		if x.Hi != nil {
			r.Hi = new(big.Int).Add(x.Hi, big.NewInt(c))
		}
		return r
	}
	return nil
}

func (e *Engine) ptrEq(x, y PtrV) *Term {
	if x.Obj == nil && y.Obj == nil {
		return And(Iff(x.Nil, TTrue), Iff(y.Nil, TTrue))
	}
	if x.Obj == nil {
		return And(x.Nil, y.Nil)
	}
	if y.Obj == nil {
		return And(x.Nil, y.Nil)
	}
	if x.Obj == y.Obj && len(x.Path) == len(y.Path) {
		same := TTrue
		for i := range x.Path {
			switch p := x.Path[i].(type) {
			case int:
				if q, ok := y.Path[i].(int); !ok || q != p {
					same = TFalse
				}
			case *Term:
				if q, ok := y.Path[i].(*Term); ok {
					same = And(same, Eq(p, q))
				} else {
					same = TFalse
				}
			}
		}
		return Or(And(x.Nil, y.Nil), And(Not(x.Nil), Not(y.Nil), same))
	}
	// elements of a slice of external pointers (isExternalPtr) are identities: two of them, or
	// one of them and a pointer this function stored into such a slice, are equal when their
	// identity terms are
	if len(x.Path) == 0 && len(y.Path) == 0 && (e.symElemObj[x.Obj] || e.symElemObj[y.Obj]) {
		rx, okx := e.ptrRefByObj[x.Obj]
		ry, oky := e.ptrRefByObj[y.Obj]
		if okx && oky {
			return Or(And(x.Nil, y.Nil), And(Not(x.Nil), Not(y.Nil), Eq(rx, ry)))
		}
	}
	// distinct executor objects never alias
	return And(x.Nil, y.Nil)
}

// ptrEqRef: a pointer compared with a ref-sorted term (a `ref` ghost variable whose value is
// not known here, e.g. an auxiliary variable of a callee after the call): equality of the
// pointer's identity term with that term — never a constant, so that assuming such a clause
// cannot kill a path.
func (e *Engine) ptrEqRef(p PtrV, t *Term) *Term {
	if p.Obj == nil {
		return And(p.Nil, App("tq_isnil", SBool, t))
	}
	if len(p.Path) != 0 {
		return e.freshVar("ptreq", SBool)
	}
	return Eq(e.ptrRef(p), t)
}

func (e *Engine) ifaceEq(st *State, x, y IfaceV) *Term {
	nx, ny := e.ifaceNil(x), e.ifaceNil(y)
	if nx.IsTrue() {
		return ny
	}
	if ny.IsTrue() {
		return nx
	}
	if x.Sym != nil && y.Sym != nil {
		if x.Sym == y.Sym {
			return TTrue
		}
		return Or(And(nx, ny), And(Not(nx), Not(ny), Eq(x.Sym.Ref, y.Sym.Ref)))
	}
	if x.Sym == nil && y.Sym == nil && x.Dyn != nil && y.Dyn != nil {
		if !types.Identical(x.Dyn, y.Dyn) {
			return TFalse
		}
		return e.valueEq(st, x.V, y.V)
	}
	// symbolic vs concrete: equality of dynamic type is necessary; payload equality
	// is left uninterpreted (sentinel errors such as io.EOF compare by identity)
	var s *SymIface
	var c IfaceV
	if x.Sym != nil {
		s, c = x.Sym, y
	} else {
		s, c = y.Sym, x
	}
	if p, ok := c.V.(PtrV); ok && p.Obj != nil {
		return And(Not(s.Nil), Eq(s.Tag, e.ifaceTag(c)), App("tq_isobj", SBool, s.Ref, Num(int64(p.Obj.ID))))
	}
	return And(Not(s.Nil), Eq(s.Tag, e.ifaceTag(c)), App("tq_sameval", SBool, s.Ref, Num(int64(e.nVar))))
}

// strEq: string equality as length + bytes.
func (e *Engine) strEq(x, y StrV) *Term {
	if n, ok := x.Len.Int64(); ok {
		if m, ok2 := y.Len.Int64(); ok2 && n != m {
			return TFalse
		}
		if n <= 64 {
			conj := []*Term{Eq(x.Len, y.Len)}
			for i := int64(0); i < n; i++ {
				conj = append(conj, Eq(Select(x.Arr, Add(x.Off, Num(i))), Select(y.Arr, Add(y.Off, Num(i)))))
			}
			return And(conj...)
		}
	}
	if n, ok := y.Len.Int64(); ok && n <= 64 {
		return e.strEq(y, x)
	}
	i := FreshBound("i", SInt)
	body := Implies(And(Le(Num(0), i), Lt(i, x.Len)),
		Eq(Select(x.Arr, Add(x.Off, i)), Select(y.Arr, Add(y.Off, i))))
	if x.Arr == y.Arr {
		// same array snapshot: equal windows are equal strings
		return And(Eq(x.Len, y.Len), Or(Eq(x.Off, y.Off), Forall([]*Term{i}, body)))
	}
	return And(Eq(x.Len, y.Len), Forall([]*Term{i}, body))
}

func (e *Engine) strConcat(st *State, x, y StrV) StrV {
	if n, ok := x.Len.Int64(); ok && n == 0 {
		return y
	}
	if n, ok := y.Len.Int64(); ok && n == 0 {
		return x
	}
	arr := App("tq_splice", SArrB, x.Arr, Add(x.Off, x.Len), y.Arr, y.Off, y.Len)
	ln := Add(x.Len, y.Len)
	var parts []StrV
	if len(x.Cat) > 0 {
		parts = append(parts, x.Cat...)
	} else {
		parts = append(parts, x)
	}
	if len(y.Cat) > 0 {
		parts = append(parts, y.Cat...)
	} else {
		parts = append(parts, y)
	}
	return StrV{Arr: arr, Off: x.Off, Len: ln, Cat: parts, Taint: x.Taint | y.Taint}
}

// valueEq: structural equality of two values as a term.
func (e *Engine) valueEq(st *State, a, b Value) *Term {
	switch x := a.(type) {
	case nil:
		return Bool(b == nil)
	case *Term:
		y, ok := b.(*Term)
		if !ok {
			if p, isPtr := b.(PtrV); isPtr && x.Sort == SRef {
				return e.ptrEqRef(p, x)
			}
			return TFalse
		}
		return Eq(x, y)
	case StrV:
		y, ok := b.(StrV)
		if !ok {
			return TFalse
		}
		return e.strEq(x, y)
	case StructV:
		y, ok := b.(StructV)
		if !ok || len(x.F) != len(y.F) {
			return TFalse
		}
		var cs []*Term
		for i := range x.F {
			cs = append(cs, e.valueEq(st, x.F[i], y.F[i]))
		}
		return And(cs...)
	case SliceV:
		y, ok := b.(SliceV)
		if !ok {
			return TFalse
		}
		return e.sliceGeomEq(x, y)
	case PtrV:
		y, ok := b.(PtrV)
		if !ok {
			if t, isTerm := b.(*Term); isTerm && t.Sort == SRef {
				return e.ptrEqRef(x, t)
			}
			return TFalse
		}
		return e.ptrEq(x, y)
	case IfaceV:
		y, ok := b.(IfaceV)
		if !ok {
			return TFalse
		}
		return e.ifaceEq(st, x, y)
	case OpaqueV:
		y, ok := b.(OpaqueV)
		if !ok {
			return TFalse
		}
		return Eq(x.Ref, y.Ref)
	case ArrV:
		y, ok := b.(ArrV)
		if !ok {
			return TFalse
		}
		if x.Base != nil && y.Base != nil {
			return Eq(x.Base, y.Base)
		}
		var cs []*Term
		for k, xv := range x.Conc {
			if k == -1 {
				continue
			}
			yv, ok := y.Conc[k]
			if !ok {
				return TFalse
			}
			cs = append(cs, e.valueEq(st, xv, yv))
		}
		return And(cs...)
	case FuncV:
		y, ok := b.(FuncV)
		if !ok {
			return TFalse
		}
		if x.Fn != nil && x.Fn == y.Fn && len(x.Bound) == len(y.Bound) {
			var cs []*Term
			for i := range x.Bound {
				cs = append(cs, e.valueEq(st, x.Bound[i], y.Bound[i]))
			}
			return And(cs...)
		}
		if x.Sym != nil && y.Sym != nil {
			return Eq(x.Sym, y.Sym)
		}
		if x.Fn == nil && x.Sym == nil && y.Fn == nil && y.Sym == nil {
			return TTrue
		}
		return TFalse
	case MapV:
		y, ok := b.(MapV)
		if !ok {
			return TFalse
		}
		if x.Obj == y.Obj {
			return Iff(x.Nil, y.Nil)
		}
		return And(x.Nil, y.Nil)
	case TupleV:
		y, ok := b.(TupleV)
		if !ok || len(x) != len(y) {
			return TFalse
		}
		var cs []*Term
		for i := range x {
			cs = append(cs, e.valueEq(st, x[i], y[i]))
		}
		return And(cs...)
	}
	e.toolError("valueEq on %T", a)
	return TFalse
}

// sliceGeomEq: same backing object, offset, length (capacity too).
func (e *Engine) sliceGeomEq(x, y SliceV) *Term {
	if x.Obj != y.Obj {
		if (x.Obj != nil && x.Obj.Sym) || (y.Obj != nil && y.Obj.Sym) {
			// a placeholder may or may not denote the other object
			return Or(And(x.Nil, y.Nil), And(e.freshVar("sameobj", SBool), Eq(x.Off, y.Off), Eq(x.Len, y.Len), Eq(x.Cap, y.Cap), Iff(x.Nil, y.Nil)))
		}
		return And(x.Nil, y.Nil)
	}
	return And(Eq(x.Off, y.Off), Eq(x.Len, y.Len), Eq(x.Cap, y.Cap), Iff(x.Nil, y.Nil))
}

func (e *Engine) convert(fr *Frame, st *State, ins ssa.Instruction, v Value, from, to types.Type) Value {
	switch {
	case isInteger(from) && isInteger(to):
		t := v.(*Term)
		lo, hi := intRange(to)
		flo, fhi := intRange(from)
		if flo.Cmp(lo) >= 0 && fhi.Cmp(hi) <= 0 {
			return t // widening
		}
		if t.Num != nil {
			if t.Num.Cmp(lo) >= 0 && t.Num.Cmp(hi) <= 0 {
				return t
			}
		}
		bits := intBits(to)
		if isUnsigned(to) {
			if t.Hi != nil && t.Hi.Cmp(hi) <= 0 {
				return t
			}
			return Mod(t, Pow2(bits))
		}
		// to signed
		if t.Hi != nil && t.Hi.Cmp(hi) <= 0 {
			return t
		}
		if bits == 64 && isUnsigned(from) {
			// uint64/uint -> int: values above MaxInt64 wrap; treated as exact with a side obligation
			e.oblige(st, fr, "safe.overflow", ins, Le(t, NumB(hi)), "unsigned to int conversion overflows")
			return t
		}
		m := Mod(t, Pow2(bits))
		return Ite(Le(m, NumB(hi)), m, Sub(m, Pow2(bits)))
	case isString(to) && isByteSlice(from):
		s := v.(SliceV)
		if s.Obj == nil {
			return emptyStr()
		}
		av := e.heapGet(st, s.Obj).(ArrV)
		return StrV{Arr: av.Base, Off: s.Off, Len: s.Len, Taint: st.taint[s.Obj]}
	case isByteSlice(to) && isString(from):
		s := v.(StrV)
		o := e.newObj("bytes", under(to).(*types.Slice).Elem(), true)
		o.Fresh = true
		st.heap[o] = ArrV{Elem: o.T, Base: s.Arr}
		if s.Taint != 0 {
			st.taintSet(o, s.Taint)
		}
		return SliceV{Obj: o, Off: s.Off, Len: s.Len, Cap: s.Len, Nil: TFalse, Elem: o.T}
	case isString(to) && isString(from):
		return v
	case isString(to) && isInteger(from):
		// string(rune): one to four bytes, uninterpreted
		r := e.freshStr(st, "runestr")
		st.assume(Le(Num(1), r.Len))
		st.assume(Le(r.Len, Num(4)))
		// an ASCII code point encodes as itself
		if t, ok := v.(*Term); ok {
			ascii := And(Le(Num(0), t), Lt(t, Num(128)))
			st.assume(Implies(ascii, And(Eq(r.Len, Num(1)), Eq(Select(r.Arr, r.Off), t))))
		}
		return r
	case isFloat(to) || isFloat(from):
		return e.fresh(st, to, "float")
	}
	if _, ok := v.(OpaqueV); ok {
		return OpaqueV{Ref: v.(OpaqueV).Ref, T: to}
	}
	if types.Identical(under(from), under(to)) {
		return v
	}
	// pointer conversions between identical underlying struct types etc.
	if _, ok := v.(PtrV); ok {
		return v
	}
	e.toolError("convert %s -> %s", typeStr(from), typeStr(to))
	return e.fresh(st, to, "conv")
}

func (e *Engine) indexAddr(fr *Frame, st *State, x *ssa.IndexAddr) Value {
	xv := e.val(fr, st, x.X)
	iv := e.val(fr, st, x.Index).(*Term)
	switch a := xv.(type) {
	case SliceV:
		e.oblige(st, fr, "safe.index", x, And(Le(Num(0), iv), Lt(iv, a.Len)), "index out of range")
		if a.Obj == nil {
			// nil slice: any index is out of range; path is infeasible past the obligation
			st.assume(TFalse)
			return PtrV{Nil: TTrue, Elem: a.Elem}
		}
		return PtrV{Obj: a.Obj, Path: []interface{}{Add(a.Off, iv)}, Nil: TFalse, Elem: a.Elem}
	case PtrV: // *array
		e.nilCheck(fr, st, x, a.Nil, "index of nil array pointer")
		at := under(a.Elem).(*types.Array)
		e.oblige(st, fr, "safe.index", x, And(Le(Num(0), iv), Lt(iv, Num(at.Len()))), "index out of range")
		return PtrV{Obj: a.Obj, Path: append(append([]interface{}{}, a.Path...), iv), Nil: TFalse, Elem: at.Elem()}
	}
	e.toolError("IndexAddr on %T", xv)
	return e.fresh(st, x.Type(), "idxaddr")
}

func (e *Engine) sliceOp(fr *Frame, st *State, x *ssa.Slice) Value {
	xv := e.val(fr, st, x.X)
	var lo, hi, max *Term
	if x.Low != nil {
		lo = e.val(fr, st, x.Low).(*Term)
	}
	if x.High != nil {
		hi = e.val(fr, st, x.High).(*Term)
	}
	if x.Max != nil {
		max = e.val(fr, st, x.Max).(*Term)
	}
	switch a := xv.(type) {
	case SliceV:
		if lo == nil {
			lo = Num(0)
		}
		if hi == nil {
			hi = a.Len
		}
		bound := a.Cap
		if max != nil {
			e.oblige(st, fr, "safe.slice", x, And(Le(hi, max), Le(max, a.Cap)), "slice max out of range")
			bound = max
		}
		e.oblige(st, fr, "safe.slice", x, And(Le(Num(0), lo), Le(lo, hi), Le(hi, a.Cap)), "slice bounds out of range")
		st.assume(And(Le(Num(0), lo), Le(lo, hi), Le(hi, a.Cap)))
		nl := Sub(hi, lo)
		nc := Sub(bound, lo)
		return SliceV{Obj: a.Obj, Off: Add(a.Off, lo), Len: nl, Cap: nc, Nil: a.Nil, Elem: a.Elem}
	case StrV:
		if lo == nil {
			lo = Num(0)
		}
		if hi == nil {
			hi = a.Len
		}
		e.oblige(st, fr, "safe.slice", x, And(Le(Num(0), lo), Le(lo, hi), Le(hi, a.Len)), "string slice bounds out of range")
		st.assume(And(Le(Num(0), lo), Le(lo, hi), Le(hi, a.Len)))
		return StrV{Arr: a.Arr, Off: Add(a.Off, lo), Len: Sub(hi, lo), Taint: a.Taint}
	case PtrV: // *array
		e.nilCheck(fr, st, x, a.Nil, "slice of nil array pointer")
		at := under(a.Elem).(*types.Array)
		n := Num(at.Len())
		if lo == nil {
			lo = Num(0)
		}
		if hi == nil {
			hi = n
		}
		e.oblige(st, fr, "safe.slice", x, And(Le(Num(0), lo), Le(lo, hi), Le(hi, n)), "slice bounds out of range")
		if len(a.Path) != 0 {
			e.toolError("slice of array embedded in a struct (not modelled)")
		}
		return SliceV{Obj: a.Obj, Off: lo, Len: Sub(hi, lo), Cap: Sub(n, lo), Nil: TFalse, Elem: at.Elem()}
	}
	e.toolError("Slice on %T", xv)
	return e.fresh(st, x.Type(), "slice")
}

func (e *Engine) lookup(fr *Frame, st *State, x *ssa.Lookup) Value {
	xv := e.val(fr, st, x.X)
	switch a := xv.(type) {
	case StrV:
		iv := e.val(fr, st, x.Index).(*Term)
		e.oblige(st, fr, "safe.index", x, And(Le(Num(0), iv), Lt(iv, a.Len)), "string index out of range")
		r := Select(a.Arr, Add(a.Off, iv))
		if r.Hi == nil {
			r.Hi = big.NewInt(255)
		}
		return r
	case MapV:
		return e.mapLookup(fr, st, x, a)
	}
	e.toolError("Lookup on %T", xv)
	return e.fresh(st, x.Type(), "lookup")
}

func (e *Engine) typeAssert(fr *Frame, st *State, x *ssa.TypeAssert) []fork {
	v := e.val(fr, st, x.X).(IfaceV)
	mk := func(val Value, ok *Term) Value {
		if x.CommaOk {
			return TupleV{val, ok}
		}
		return val
	}
	resT := x.AssertedType
	_, toIface := under(resT).(*types.Interface)
	if v.Sym == nil {
		if v.Dyn == nil {
			if !x.CommaOk {
				e.oblige(st, fr, "safe.assert", x, TFalse, "type assertion on nil interface")
				st.assume(TFalse)
			}
			fr.env[x] = mk(e.zero(resT), TFalse)
			return nil
		}
		var okk bool
		if toIface {
			okk = types.Implements(v.Dyn, under(resT).(*types.Interface))
		} else {
			okk = types.Identical(v.Dyn, resT)
		}
		if okk {
			if toIface {
				fr.env[x] = mk(v, TTrue)
			} else {
				fr.env[x] = mk(v.V, TTrue)
			}
		} else {
			if !x.CommaOk {
				e.oblige(st, fr, "safe.assert", x, TFalse, "type assertion fails")
				st.assume(TFalse)
			}
			fr.env[x] = mk(e.zero(resT), TFalse)
		}
		return nil
	}
	// symbolic interface
	s := v.Sym
	if toIface {
		// interface-to-interface assertion on a symbolic value: result keeps the identity
		ok := e.freshVar("implements", SBool)
		st.assume(Implies(s.Nil, Not(ok)))
		if !x.CommaOk {
			e.oblige(st, fr, "safe.assert", x, ok, "interface assertion may fail")
			st.assume(ok)
		}
		fr.env[x] = mk(v, ok)
		return nil
	}
	id := Num(int64(e.typeID(resT)))
	is := And(Not(s.Nil), Eq(s.Tag, id))
	k := types.TypeString(resT, nil)
	payload, have := s.Cases[k]
	if !have {
		tmp := &State{}
		payload = e.fresh(tmp, resT, s.Name+"_as_"+sanitize(typeStr(resT)))
		for _, c := range tmp.pc {
			st.assume(c)
		}
		if p, isPtr := payload.(PtrV); isPtr {
			p.Nil = TFalse // a non-nil interface holding a pointer may hold a nil pointer, but tacquito never stores one; see assumptions
			payload = p
			e.noteAssumption("interfaces holding pointers are assumed to hold non-nil pointers")
		}
		s.Cases[k] = payload
	}
	if !x.CommaOk {
		e.oblige(st, fr, "safe.assert", x, is, "type assertion may fail")
		st.assume(is)
		fr.env[x] = payload
		return nil
	}
	// fork so that the payload is only used when the assertion holds
	st2 := st.clone()
	st.assume(is)
	st2.assume(Not(is))
	return []fork{{st, x, TupleV{payload, TTrue}}, {st2, x, TupleV{e.zero(resT), TFalse}}}
}

func (e *Engine) goStmt(fr *Frame, st *State, x *ssa.Go) {
	e.event(st, "go:"+calleeName(x.Common()))
	c := x.Common()
	if !c.IsInvoke() {
		if fn, ok := c.Value.(*ssa.Function); ok {
			if con := e.contracts[funcKey(fn)]; con != nil {
				args := make([]Value, len(c.Args))
				for i, a := range c.Args {
					args[i] = e.val(fr, st, a)
				}
				e.checkPre(fr, st, con, fn, args, x, nil)
				for _, g := range con.GhostInc {
					cur, ok := st.ghost[g].(*Term)
					if !ok {
						cur, _ = e.ghostInit(st, g).(*Term)
					}
					st.ghost[g] = Add(cur, Num(1))
				}
			}
		}
	}
}
