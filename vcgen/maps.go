package main

// Abstract maps: domain set + cardinality + association list over an unknown
// remainder. Keys are integers, strings (by abstract string value) or opaque refs.

import (
	"fmt"
	"go/types"

	"golang.org/x/tools/go/ssa"
)

func (e *Engine) keyTerm(st *State, k Value) *Term {
	switch x := k.(type) {
	case *Term:
		if x.Sort == SInt {
			return x
		}
		return x
	case StrV:
		return App("tq_skey", SInt, strTerm(x))
	case StructV:
		args := make([]*Term, len(x.F))
		for i, f := range x.F {
			args[i] = e.keyTerm(st, f)
		}
		return App(fmt.Sprintf("tq_key%d", len(args)), SInt, args...)
	case OpaqueV:
		return App("tq_rkey", SInt, x.Ref)
	case IfaceV:
		if x.Sym != nil {
			return App("tq_rkey", SInt, x.Sym.Ref)
		}
		if x.Dyn != nil {
			return App("tq_ikey", SInt, Num(int64(e.typeID(x.Dyn))), e.keyTerm(st, x.V))
		}
		return Num(-1)
	}
	e.toolError("map key of type %T not modelled", k)
	return e.freshVar("key", SInt)
}

func (e *Engine) emptyMap(mt *types.Map) MapC {
	return MapC{KeySort: SInt, Dom: ConstArr(SSet, TFalse), Card: Num(0), ValT: mt.Elem(), RestID: ""}
}

func (e *Engine) mapContent(st *State, m MapV) MapC {
	v, ok := st.heap[m.Obj]
	if !ok {
		v, ok = e.initHeap[m.Obj]
	}
	if !ok {
		card := e.freshVar(m.Obj.Name+"_card", SInt)
		mc := MapC{KeySort: SInt, Dom: e.freshVar(m.Obj.Name+"_dom", SSet), Card: card, ValT: m.T.Elem(), RestID: e.freshName(m.Obj.Name + "_rest")}
		e.initHeap[m.Obj] = mc
		e.lazyFacts[m.Obj] = []*Term{Le(Num(0), card), Le(card, NumB(maxLen))}
		v = mc
	}
	if _, have := st.heap[m.Obj]; !have {
		for _, f := range e.lazyFacts[m.Obj] {
			st.assume(f)
		}
		st.heap[m.Obj] = v
	}
	return v.(MapC)
}

// restVal: the value the unknown remainder of the map holds at key k (memoised by key text).
func (e *Engine) restVal(st *State, m MapV, mc MapC, k *Term) Value {
	if mc.RestID == "" {
		return e.zero(mc.ValT)
	}
	id := fmt.Sprintf("%s|%d", mc.RestID, k.id)
	pre := sanitize(mc.RestID)
	if pt, isPtr := under(mc.ValT).(*types.Pointer); isPtr {
		// pointer values: nil-ness and the pointee's initial fields are functions of the key,
		// so that quantified statements over keys are meaningful; the pointee is an
		// executor-level object per key term
		o, ok := e.restObjs[id]
		if !ok {
			o = e.newObj("mapval", pt.Elem(), false)
			e.restObjs[id] = o
			tmp := &State{}
			e.initHeap[o] = e.freshKeyed(tmp, pt.Elem(), pre+"_v", k)
			e.lazyFacts[o] = tmp.pc
		}
		return PtrV{Obj: o, Nil: App("tq_uf_bool_"+pre+"_nil", SBool, k), Elem: pt.Elem()}
	}
	if v, ok := e.restVals[id]; ok {
		return v
	}
	tmp := &State{}
	v := e.freshKeyed(tmp, mc.ValT, pre+"_v", k)
	for _, f := range tmp.pc {
		st.assume(f)
	}
	e.restVals[id] = v
	return v
}

// freshKeyed: a value of type t whose scalar leaves are uninterpreted functions of key k.
func (e *Engine) freshKeyed(st *State, t types.Type, pre string, k *Term) Value {
	ground := len(k.fbv) == 0
	switch u := under(t).(type) {
	case *types.Basic:
		switch {
		case u.Info()&types.IsBoolean != 0:
			return App("tq_uf_bool_"+pre, SBool, k)
		case u.Info()&types.IsInteger != 0:
			v := App("tq_uf_int_"+pre, SInt, k)
			lo, hi := intRange(t)
			if ground {
				st.assume(Le(NumB(lo), v))
				st.assume(Le(v, NumB(hi)))
			}
			if lo.Sign() == 0 {
				v.Hi = hi
			}
			return v
		case u.Info()&types.IsString != 0:
			ln := App("tq_uf_int_"+pre+"_len", SInt, k)
			if ground {
				st.assume(Le(Num(0), ln))
				st.assume(Le(ln, NumB(maxLen)))
			}
			return StrV{Arr: App("tq_uf_arr_"+pre, SArrB, k), Off: Num(0), Len: ln}
		}
	case *types.Struct:
		sv := StructV{T: u, F: make([]Value, u.NumFields())}
		for i := 0; i < u.NumFields(); i++ {
			sv.F[i] = e.freshKeyed(st, u.Field(i).Type(), fmt.Sprintf("%s_%s", pre, sanitize(u.Field(i).Name())), k)
		}
		return sv
	case *types.Interface:
		ref := App("tq_uf_ref_"+pre, SRef, k)
		return e.ifaceFromRef(ref, t)
	case *types.Signature:
		// function values: identity and nil-ness are functions of the key
		return FuncV{Sym: App("tq_uf_ref_"+pre, SRef, k), Nil: App("tq_uf_bool_"+pre+"_nil", SBool, k), Sig: u}
	}
	return e.fresh(st, t, pre)
}

// mapGet returns (value, present). When several association entries may equal the
// key the value is an ite over them (mergeable shapes only).
func (e *Engine) mapGet(st *State, m MapV, key Value) (Value, *Term) {
	if m.Obj == nil {
		return e.zero(m.T.Elem()), TFalse
	}
	mc := e.mapContent(st, m)
	k := e.keyTerm(st, key)
	present := Select(mc.Dom, k)
	val := e.restVal(st, m, mc, k)
	zero := e.zero(mc.ValT)
	// absent keys read as zero
	if mc.RestID != "" {
		if mv, ok := e.mergeValues(present, val, zero); ok {
			val = mv
		}
	}
	for i := len(mc.Assoc) - 1; i >= 0; i-- {
		en := mc.Assoc[i]
		eq := Eq(k, en.Key)
		ev := en.Val
		if ev == nil {
			ev = zero
		}
		if eq.IsTrue() {
			val = ev
			continue
		}
		if eq.IsFalse() {
			continue
		}
		mv, ok := e.mergeValues(eq, ev, val)
		if !ok {
			// alternatives that cannot be merged structurally (pointers to different objects)
			val = ChoiceV{Cond: eq, A: ev, B: val}
			continue
		}
		val = mv
	}
	return val, present
}

func (e *Engine) mapSet(st *State, m MapV, key Value, v Value) {
	mc := e.mapContent(st, m)
	k := e.keyTerm(st, key)
	was := Select(mc.Dom, k)
	n := mc
	n.Assoc = append(append([]MapEntry(nil), mc.Assoc...), MapEntry{Key: k, Val: v})
	n.Dom = Store(mc.Dom, k, TTrue)
	n.Card = Add(mc.Card, Ite(was, Num(0), Num(1)))
	st.heap[m.Obj] = n
}

func (e *Engine) mapDelete(st *State, m MapV, key Value) {
	if m.Obj == nil {
		return
	}
	mc := e.mapContent(st, m)
	k := e.keyTerm(st, key)
	was := Select(mc.Dom, k)
	n := mc
	n.Assoc = append(append([]MapEntry(nil), mc.Assoc...), MapEntry{Key: k, Val: nil})
	n.Dom = Store(mc.Dom, k, TFalse)
	n.Card = Sub(mc.Card, Ite(was, Num(1), Num(0)))
	st.heap[m.Obj] = n
}

func (e *Engine) mapUpdate(fr *Frame, st *State, x *ssa.MapUpdate) {
	m := e.val(fr, st, x.Map).(MapV)
	e.oblige(st, fr, "safe.nil", x, Not(m.Nil), "assignment to entry in nil map")
	st.assume(Not(m.Nil))
	if m.Obj == nil {
		return
	}
	kv, vv := e.val(fr, st, x.Key), e.val(fr, st, x.Value)
	// labels (C18): a labelled value stored under a literal key makes that key secret-bearing;
	// under a computed key the whole map is labelled
	if bits := e.taintBits(st, vv, 0) &^ 128; bits != 0 {
		if ks, ok := kv.(StrV); ok && ks.Lit != nil {
			st.taintKeysAdd(m.Obj, *ks.Lit)
		} else if ks, ok := kv.(StrV); ok {
			if lit, ok2 := concreteString(ks); ok2 {
				st.taintKeysAdd(m.Obj, lit)
			} else {
				st.taintSet(m.Obj, bits)
			}
		} else {
			st.taintSet(m.Obj, bits)
		}
	}
	e.mapSet(st, m, kv, vv)
}

func (e *Engine) mapLookup(fr *Frame, st *State, x *ssa.Lookup, m MapV) Value {
	key := e.val(fr, st, x.Index)
	var val Value
	var present *Term
	if m.Obj == nil {
		val, present = e.zero(m.T.Elem()), TFalse
	} else {
		// a nil map reads as empty
		val, present = e.mapGet(st, m, key)
		if !m.Nil.IsFalse() {
			if mv, ok := e.mergeValues(m.Nil, e.zero(m.T.Elem()), val); ok {
				val = mv
			}
			present = And(Not(m.Nil), present)
		}
	}
	if x.CommaOk {
		return TupleV{val, present}
	}
	return val
}

// ---------- range over maps and strings ----------

type rangeIter struct {
	over  Value
	m     MapV
	id    int
	isStr bool
	start MapC // content when the iteration started
	key   string
}

func (e *Engine) rangeInit(fr *Frame, st *State, x *ssa.Range) Value {
	v := e.val(fr, st, x.X)
	e.nVar++
	it := &rangeIter{over: v, id: e.nVar}
	switch s := v.(type) {
	case MapV:
		it.m = s
		if s.Obj != nil {
			it.start = e.mapContent(st, s)
		}
		it.key = fmt.Sprintf("rangecount#%d", it.id)
		st.ghost[it.key] = Num(0)
		st.ghost["rangecount"] = Num(0)
	case StrV:
		it.isStr = true
	}
	return it
}

// rangeNext: nondeterministic iteration. For maps: ok is unconstrained, the key is
// some member of the domain (order and coverage are not modelled beyond that —
// loops over maps need invariants that do not depend on order).
func (e *Engine) rangeNext(fr *Frame, st *State, x *ssa.Next) []fork {
	it, _ := e.val(fr, st, x.Iter).(*rangeIter)
	tt := x.Type().(*types.Tuple)
	ok := e.freshVar("rangeok", SBool)
	tv := TupleV{ok, nil, nil}
	if it == nil {
		e.toolError("Next on unknown iterator")
		tv[1] = e.fresh(st, tt.At(1).Type(), "rk")
		tv[2] = e.fresh(st, tt.At(2).Type(), "rv")
		fr.env[x] = tv
		return nil
	}
	if x.IsString {
		s := it.over.(StrV)
		idx := e.freshVar("ri", SInt)
		st.assume(Implies(ok, And(Le(Num(0), idx), Lt(idx, s.Len))))
		tv[1] = idx
		r := e.freshVar("rune", SInt)
		st.assume(And(Le(Num(0), r), Le(r, Num(0x10ffff))))
		tv[2] = r
		e.noteAssumption("range over string: iteration order/coverage abstracted (nondeterministic index)")
		fr.env[x] = tv
		return nil
	}
	m := it.m
	if m.Obj == nil {
		st.assume(Not(ok))
		tv[1] = e.zero(tt.At(1).Type())
		tv[2] = e.zero(tt.At(2).Type())
		fr.env[x] = tv
		return nil
	}
	mc := e.mapContent(st, m)
	kt := tt.At(1).Type()
	var key Value
	if _, isInvalid := kt.(*types.Basic); isInvalid && kt.(*types.Basic).Kind() == types.Invalid {
		key = e.fresh(st, m.T.Key(), "rkey")
	} else {
		key = e.fresh(st, m.T.Key(), "rkey")
	}
	k := e.keyTerm(st, key)
	st.assume(Implies(ok, Select(mc.Dom, k)))
	st.assume(Implies(ok, Lt(Num(0), mc.Card)))
	if m.Nil != nil && !m.Nil.IsFalse() {
		st.assume(Implies(ok, Not(m.Nil))) // a nil map has no entries to produce
	}
	// number of entries produced so far; exact bounds when the map was not modified since
	// the iteration began (Go produces every entry exactly once in that case)
	cnt, _ := st.ghost["rangecount"].(*Term)
	if cnt == nil {
		cnt = Num(0)
	}
	if sameValue(mc, it.start) {
		st.assume(Implies(ok, Lt(cnt, mc.Card)))
		st.assume(Implies(Not(ok), Eq(cnt, mc.Card)))
	}
	st.ghost["rangecount"] = Add(cnt, Ite(ok, Num(1), Num(0)))
	val, _ := e.mapGet(st, m, key)
	tv[1] = key
	tv[2] = val
	e.noteAssumption("range over map: iteration order/coverage abstracted (nondeterministic member)")
	fr.env[x] = tv
	return nil
}

// mapValNil: nil-ness of the (pointer/interface) value stored at key k.
func (e *Engine) mapValNil(st *State, m MapV, key Value) *Term {
	if m.Obj == nil {
		return TTrue
	}
	mc := e.mapContent(st, m)
	k := e.keyTerm(st, key)
	nilOf := func(v Value) *Term {
		switch x := v.(type) {
		case PtrV:
			return x.Nil
		case IfaceV:
			return e.ifaceNil(x)
		case nil:
			return TTrue
		}
		return TFalse
	}
	res := nilOf(e.restVal(st, m, mc, k))
	if mc.RestID == "" {
		res = TTrue
	}
	res = Ite(Select(baseDom(mc), k), res, TTrue)
	for _, en := range mc.Assoc {
		var n *Term
		if en.Val == nil {
			n = TTrue
		} else {
			n = nilOf(en.Val)
		}
		res = Ite(Eq(k, en.Key), n, res)
	}
	return res
}

// baseDom: the domain before any association entry was added.
func baseDom(mc MapC) *Term {
	d := mc.Dom
	for i := 0; i < len(mc.Assoc) && d.Op == "store"; i++ {
		d = d.Args[0]
	}
	return d
}

// mapSameExcept: every key other than k has the same membership and value in a and b
// (b is the older map; a was derived from it by updates).
func (e *Engine) mapSameExcept(st, old *State, a, b MapV, key Value) *Term {
	if a.Obj != b.Obj || a.Obj == nil {
		return TFalse
	}
	ma, mb := e.mapContent(st, a), e.mapContent(old, b)
	if ma.RestID != mb.RestID || len(ma.Assoc) < len(mb.Assoc) {
		return TFalse
	}
	k := e.keyTerm(st, key)
	conj := []*Term{}
	for i, en := range ma.Assoc {
		if i < len(mb.Assoc) {
			if en.Key != mb.Assoc[i].Key {
				return TFalse
			}
			continue
		}
		conj = append(conj, Eq(en.Key, k))
	}
	j := FreshBound("mk", SInt)
	conj = append(conj, Forall([]*Term{j}, Implies(Ne(j, k), Iff(Select(ma.Dom, j), Select(mb.Dom, j)))))
	return And(conj...)
}

// ChoiceV: a value that is A when Cond holds and B otherwise, for shapes that cannot
// be merged into one value (pointers to distinct objects). Contract evaluation maps
// field/index/equality over the alternatives.
type ChoiceV struct {
	Cond *Term
	A, B Value
}
