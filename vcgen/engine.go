package main

import (
	"fmt"
	"go/token"
	"go/types"
	"math/big"
	"os"
	"sort"
	"strings"

	"golang.org/x/tools/go/packages"
	"golang.org/x/tools/go/ssa"
	"golang.org/x/tools/go/ssa/ssautil"
)

const modPath = "github.com/facebookincubator/tacquito"

var maxLen = new(big.Int).Lsh(big.NewInt(1), 40) // assumed bound on every len/cap

type Engine struct {
	fset      *token.FileSet
	prog      *ssa.Program
	pkgs      []*packages.Package
	ssaPkgs   map[string]*ssa.Package
	contracts map[string]*Contract
	specFuns  map[string]*SpecFun
	ifaceCon  map[string]*Contract // "pkgpath.Iface.Method"
	funcsByK  map[string]*ssa.Function

	typeIDs              map[string]int
	typeByID             []types.Type
	nObj                 int
	nVar                 int
	byteArrs             map[string]bool // array vars holding bytes (0..255)
	strArrs              map[string]bool // SArrS vars
	strVars              map[string]bool // SStr vars
	initHeap             map[*Obj]Value  // shared initial content of lazily materialised objects
	lazyFacts            map[*Obj][]*Term
	globals              map[*ssa.Global]*Obj
	initGhost            map[string]Value
	restObjs             map[string]*Obj
	restVals             map[string]Value
	entries              map[string]*EntryInfo
	ghostSorts           map[string]string
	auxGhost             map[string]bool
	localAlias           map[string]map[string]string // function key -> contract name -> local name (rebind.go)
	unkIdents            map[string]bool              // identifiers a clause of the current function could not resolve
	noRebind             bool
	assumeSkips          int             // clauses that could not be assumed because they could not be evaluated
	dropHints            map[string]bool // functions whose unevaluable loop invariants are not used (rebind.go)
	witnessCache         map[string]*witnessResult
	refPayload           map[*Term]IfaceV
	symByRef             map[*Term]*SymIface
	refFactsBy           map[string][]*Term
	ptrRefByObj          map[*Obj]*Term
	ptrByRef             map[*Term]PtrV
	symElemObj           map[*Obj]bool
	globalRefs           []string
	extraTerms           []*Term
	symMode              int
	propAll              map[string]bool
	probesRan, probesBad []string
	maybeNilRet          map[string]bool // Nil variables of pointer results of external (value, error) functions
	pendingFree          map[string]Value
	obls                 []*Obligation
	assumpLog            map[string]bool
	errors               []string
	curFn                string
	curCase              int
	curTags              map[string]bool // tags to generate for (nil = all)
	pathCount            int
	inlineDep            int
	trace                bool
	ordCache             map[*ssa.Function]map[ssa.Instruction]int
	loopCache            map[*ssa.Function]*loopInfo
	constCache           map[string]int64
}

func newEngine() *Engine {
	e := &Engine{
		ssaPkgs:     map[string]*ssa.Package{},
		contracts:   map[string]*Contract{},
		specFuns:    map[string]*SpecFun{},
		ifaceCon:    map[string]*Contract{},
		funcsByK:    map[string]*ssa.Function{},
		typeIDs:     map[string]int{},
		byteArrs:    map[string]bool{},
		strArrs:     map[string]bool{},
		strVars:     map[string]bool{},
		initHeap:    map[*Obj]Value{},
		lazyFacts:   map[*Obj][]*Term{},
		globals:     map[*ssa.Global]*Obj{},
		initGhost:   map[string]Value{},
		restObjs:    map[string]*Obj{},
		restVals:    map[string]Value{},
		entries:     map[string]*EntryInfo{},
		ghostSorts:  map[string]string{},
		auxGhost:    map[string]bool{},
		localAlias:  map[string]map[string]string{},
		dropHints:   map[string]bool{},
		propAll:     map[string]bool{},
		refPayload:  map[*Term]IfaceV{},
		symByRef:    map[*Term]*SymIface{},
		refFactsBy:  map[string][]*Term{},
		ptrRefByObj: map[*Obj]*Term{}, ptrByRef: map[*Term]PtrV{}, symElemObj: map[*Obj]bool{},
		assumpLog:  map[string]bool{},
		ordCache:   map[*ssa.Function]map[ssa.Instruction]int{},
		loopCache:  map[*ssa.Function]*loopInfo{},
		constCache: map[string]int64{},
	}
	theEngine = e
	return e
}

func (e *Engine) load(dir string, overlay map[string][]byte) error {
	cfg := &packages.Config{
		Mode:    packages.LoadAllSyntax,
		Dir:     dir,
		Overlay: overlay,
		Env:     append(os.Environ(), "GOFLAGS=-mod=mod", "GOPROXY=off", "GOSUMDB=off", "GOTOOLCHAIN=local"),
	}
	pkgs, err := packages.Load(cfg, "./...")
	if err != nil {
		return err
	}
	nerr := 0
	packages.Visit(pkgs, nil, func(p *packages.Package) {
		for _, e := range p.Errors {
			if strings.HasPrefix(p.PkgPath, modPath) {
				fmt.Fprintln(os.Stderr, "load error:", e)
				nerr++
			}
		}
	})
	if nerr > 0 {
		return fmt.Errorf("%d load errors", nerr)
	}
	prog, spkgs := ssautil.AllPackages(pkgs, ssa.GlobalDebug|ssa.InstantiateGenerics)
	prog.Build()
	e.prog = prog
	e.pkgs = pkgs
	if len(pkgs) > 0 {
		e.fset = pkgs[0].Fset
	}
	for _, sp := range spkgs {
		if sp != nil {
			e.ssaPkgs[sp.Pkg.Path()] = sp
		}
	}
	for _, sp := range prog.AllPackages() {
		e.ssaPkgs[sp.Pkg.Path()] = sp
	}
	// index functions by key
	for fn := range ssautil.AllFunctions(prog) {
		if fn.Pkg == nil && fn.Signature.Recv() == nil && fn.Parent() == nil {
			continue
		}
		k := funcKey(fn)
		if k != "" {
			if old, ok := e.funcsByK[k]; ok && old.Synthetic == "" {
				continue
			}
			e.funcsByK[k] = fn
		}
	}
	return nil
}

func shortPkg(path string) string {
	if path == modPath {
		return "tacquito"
	}
	if strings.HasPrefix(path, modPath+"/") {
		return strings.TrimPrefix(path, modPath+"/")
	}
	return path
}

// funcKey: "<pkg>.<Func>", "<pkg>.<Recv>.<Method>", closures "<parent>$N".
func funcKey(fn *ssa.Function) string {
	if fn.Parent() != nil {
		pk := funcKey(fn.Parent())
		name := fn.Name()
		if i := strings.LastIndex(name, "$"); i >= 0 {
			return pk + name[i:]
		}
		return pk + "$" + name
	}
	if recv := fn.Signature.Recv(); recv != nil {
		t := recv.Type()
		if p, ok := t.(*types.Pointer); ok {
			t = p.Elem()
		}
		if n, ok := t.(*types.Named); ok {
			pkg := ""
			if n.Obj().Pkg() != nil {
				pkg = shortPkg(n.Obj().Pkg().Path())
			}
			return pkg + "." + n.Obj().Name() + "." + fn.Name()
		}
		return typeStr(t) + "." + fn.Name()
	}
	if fn.Pkg != nil {
		return shortPkg(fn.Pkg.Pkg.Path()) + "." + fn.Name()
	}
	if fn.Object() != nil && fn.Object().Pkg() != nil {
		return shortPkg(fn.Object().Pkg().Path()) + "." + fn.Name()
	}
	return fn.Name()
}

func (e *Engine) typeID(t types.Type) int {
	k := types.TypeString(t, nil)
	if id, ok := e.typeIDs[k]; ok {
		return id
	}
	id := len(e.typeIDs) + 1
	e.typeIDs[k] = id
	e.typeByID = append(e.typeByID, t)
	return id
}

func (e *Engine) freshName(hint string) string {
	e.nVar++
	hint = sanitize(hint)
	return fmt.Sprintf("tq_%s_%d", hint, e.nVar)
}

func sanitize(s string) string {
	var b strings.Builder
	for _, r := range s {
		if r >= 'a' && r <= 'z' || r >= 'A' && r <= 'Z' || r >= '0' && r <= '9' || r == '_' {
			b.WriteRune(r)
		} else {
			b.WriteRune('_')
		}
	}
	if b.Len() > 40 {
		return b.String()[:40]
	}
	return b.String()
}

func (e *Engine) freshVar(hint, srt string) *Term { return Var(e.freshName(hint), srt) }

func (e *Engine) newObj(name string, t types.Type, isArr bool) *Obj {
	e.nObj++
	return &Obj{ID: e.nObj, Name: name, T: t, IsArr: isArr, Sym: e.symMode > 0}
}

func (e *Engine) noteAssumption(s string) { e.assumpLog[s] = true }

func (e *Engine) toolError(format string, a ...interface{}) {
	msg := fmt.Sprintf(format, a...)
	e.errors = append(e.errors, e.curFn+": "+msg)
}

// ---------- fresh symbolic values ----------

func intRange(t types.Type) (lo, hi *big.Int) {
	bits := intBits(t)
	if isUnsigned(t) {
		return big.NewInt(0), new(big.Int).Sub(new(big.Int).Lsh(big.NewInt(1), uint(bits)), big.NewInt(1))
	}
	h := new(big.Int).Lsh(big.NewInt(1), uint(bits-1))
	return new(big.Int).Neg(h), new(big.Int).Sub(h, big.NewInt(1))
}

// fresh builds an unconstrained symbolic value of Go type t; type invariants
// (integer ranges, 0<=len<=cap) are assumed into st.
func (e *Engine) fresh(st *State, t types.Type, hint string) Value {
	switch u := under(t).(type) {
	case *types.Basic:
		switch {
		case u.Info()&types.IsBoolean != 0:
			return e.freshVar(hint, SBool)
		case u.Info()&types.IsInteger != 0:
			v := e.freshVar(hint, SInt)
			lo, hi := intRange(t)
			st.assume(Le(NumB(lo), v))
			st.assume(Le(v, NumB(hi)))
			if lo.Sign() == 0 {
				v.Hi = hi
			}
			return v
		case u.Info()&types.IsString != 0:
			return e.freshStr(st, hint)
		case u.Kind() == types.UnsafePointer, u.Kind() == types.UntypedNil:
			return OpaqueV{Ref: e.freshVar(hint, SRef), T: t}
		default:
			return OpaqueV{Ref: e.freshVar(hint, SRef), T: t}
		}
	case *types.Pointer:
		o := e.newObj(hint, u.Elem(), false)
		return PtrV{Obj: o, Nil: e.freshVar(hint+"_nil", SBool), Elem: u.Elem()}
	case *types.Slice:
		return e.freshSlice(st, u.Elem(), hint)
	case *types.Struct:
		sv := StructV{T: u, F: make([]Value, u.NumFields())}
		for i := 0; i < u.NumFields(); i++ {
			sv.F[i] = e.fresh(st, u.Field(i).Type(), hint+"_"+u.Field(i).Name())
		}
		return sv
	case *types.Array:
		o := e.newObj(hint, u.Elem(), true)
		_ = o
		return e.freshArr(st, u.Elem(), hint)
	case *types.Interface:
		return e.freshIface(st, t, hint)
	case *types.Signature:
		return FuncV{Sym: e.freshVar(hint, SRef), Nil: e.freshVar(hint+"_nil", SBool), Sig: u}
	case *types.Map:
		o := e.newObj(hint, t, false)
		return MapV{Obj: o, Nil: e.freshVar(hint+"_nil", SBool), T: u}
	case *types.Tuple:
		tv := make(TupleV, u.Len())
		for i := 0; i < u.Len(); i++ {
			tv[i] = e.fresh(st, u.At(i).Type(), fmt.Sprintf("%s_%d", hint, i))
		}
		return tv
	}
	return OpaqueV{Ref: e.freshVar(hint, SRef), T: t}
}

func (e *Engine) freshStr(st *State, hint string) StrV {
	arr := e.freshVar(hint+"_s", SArrB)
	e.byteArrs[arr.VarName()] = true
	ln := e.freshVar(hint+"_len", SInt)
	st.assume(Le(Num(0), ln))
	st.assume(Le(ln, NumB(maxLen)))
	ln.Hi = maxLen
	return StrV{Arr: arr, Off: Num(0), Len: ln}
}

func (e *Engine) freshArr(st *State, elem types.Type, hint string) ArrV {
	av := ArrV{Elem: elem, Conc: map[int64]Value{}}
	if s := elemArrSort(elem); s != "" {
		av.Base = e.freshVar(hint+"_a", s)
		if s == SArrB && intBits(elem) == 8 && isUnsigned(elem) {
			e.byteArrs[av.Base.VarName()] = true
		}
		if s == SArrS {
			e.strArrs[av.Base.VarName()] = true
		}
	}
	return av
}

func (e *Engine) freshSlice(st *State, elem types.Type, hint string) SliceV {
	o := e.newObj(hint, elem, true)
	ln := e.freshVar(hint+"_len", SInt)
	cp := e.freshVar(hint+"_cap", SInt)
	nl := e.freshVar(hint+"_nil", SBool)
	st.assume(Le(Num(0), ln))
	st.assume(Le(ln, cp))
	st.assume(Le(cp, NumB(maxLen)))
	st.assume(Implies(nl, Eq(cp, Num(0))))
	ln.Hi = maxLen
	cp.Hi = maxLen
	return SliceV{Obj: o, Off: Num(0), Len: ln, Cap: cp, Nil: nl, Elem: elem}
}

func (e *Engine) freshIface(st *State, t types.Type, hint string) IfaceV {
	e.nVar++
	ref := e.freshVar(hint+"_ref", SRef)
	s := &SymIface{ID: e.nVar, Name: hint, T: t,
		Nil: App("tq_isnil", SBool, ref), Tag: App("tq_tag", SInt, ref), Ref: ref,
		Cases: map[string]Value{}}
	e.symByRef[ref] = s
	return IfaceV{Sym: s}
}

// heapGet returns the content of o, materialising it lazily. The initial
// content is shared by all paths (and by the old-state snapshot), its type
// invariants are (re-)assumed in every state that first touches it.
func (e *Engine) heapGet(st *State, o *Obj) Value {
	if v, ok := st.heap[o]; ok {
		return v
	}
	v, ok := e.initHeap[o]
	if !ok {
		tmp := &State{}
		if o.IsArr {
			v = e.freshArr(tmp, o.T, o.Name)
		} else {
			v = e.fresh(tmp, o.T, o.Name)
		}
		e.initHeap[o] = v
		e.lazyFacts[o] = tmp.pc
	}
	for _, c := range e.lazyFacts[o] {
		st.assume(c)
	}
	st.heap[o] = v
	return v
}

var _ = sort.Strings
