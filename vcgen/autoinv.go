package main

import (
	"fmt"
	"go/token"

	"golang.org/x/tools/go/ssa"
)

// Inferred bounds of counting loops.
//
// For every integer loop-carried variable p of a loop under contract that starts at a
// constant c and is advanced by a positive constant on the back edge, the clause c <= p is an
// invariant candidate; if the loop's exit test is `p < B` or `p + k < B` with B a value
// computed outside the loop or len(s) of a slice / string defined outside the loop, then
// p (+k) <= B is one too. The candidates are CHECKED like written invariants (init and keep
// obligations named autoinv<N>…) and assumed after the havoc. They make the trivial bounds
// clauses of the contracts redundant, so that rewriting `for _, x := range xs` into an index
// loop (or back) does not depend on a clause that names `rangeindex` or `i`.
func (e *Engine) autoInv(fr *Frame, st *State, b *ssa.BasicBlock, phis []*ssa.Phi, blocks map[int]bool) []*Term {
	out, _ := e.autoInv2(fr, st, b, phis, blocks)
	return out
}

// autoInv2 also reports whether the loop is a counting loop whose bound is not a constant: such a
// loop cannot be unrolled, so when nobody wrote an invariant for it (typically a helper that a
// refactoring extracted and that is inlined at its call site) it is cut with the inferred
// bounds as its only invariant instead of being reported as a tool error.
func (e *Engine) autoInv2(fr *Frame, st *State, b *ssa.BasicBlock, phis []*ssa.Phi, blocks map[int]bool) ([]*Term, bool) {
	symbolic := false
	var out []*Term
	outside := func(v ssa.Value) bool {
		switch x := v.(type) {
		case *ssa.Const, *ssa.Parameter, *ssa.FreeVar, *ssa.Global:
			return true
		case ssa.Instruction:
			if x.Block() == nil {
				return false
			}
			return !blocks[x.Block().Index]
		}
		return false
	}
	for _, p := range phis {
		if !isInteger(p.Type()) || len(p.Edges) != len(b.Preds) {
			continue
		}
		// one value from outside the loop, one and the same value on every back edge
		var initV, back ssa.Value
		regular := true
		for k, pred := range b.Preds {
			if blocks[pred.Index] {
				if back != nil && back != p.Edges[k] {
					regular = false
				}
				back = p.Edges[k]
			} else {
				if initV != nil && initV != p.Edges[k] {
					regular = false
				}
				initV = p.Edges[k]
			}
		}
		if !regular || initV == nil || back == nil {
			continue
		}
		bo, ok := back.(*ssa.BinOp)
		if !ok || bo.Op != token.ADD || bo.X != ssa.Value(p) {
			continue
		}
		step, ok := bo.Y.(*ssa.Const)
		if !ok || step.Value == nil || step.Int64() <= 0 {
			continue
		}
		ic, ok := initV.(*ssa.Const)
		if !ok || ic.Value == nil {
			continue
		}
		pv, ok := fr.env[p].(*Term)
		if !ok {
			continue
		}
		out = append(out, Le(Num(ic.Int64()), pv))
		iff, ok := b.Instrs[len(b.Instrs)-1].(*ssa.If)
		if !ok {
			continue
		}
		cmp, ok := iff.Cond.(*ssa.BinOp)
		if !ok || cmp.Op != token.LSS {
			continue
		}
		var xt *Term
		if cmp.X == ssa.Value(p) {
			xt = pv
		} else if bx, ok := cmp.X.(*ssa.BinOp); ok && bx.Op == token.ADD && bx.X == ssa.Value(p) {
			if c2, ok := bx.Y.(*ssa.Const); ok && c2.Value != nil {
				xt = Add(pv, Num(c2.Int64()))
			}
		}
		if xt == nil {
			continue
		}
		var bound *Term
		if outside(cmp.Y) {
			bound, _ = e.val(fr, st, cmp.Y).(*Term)
		} else if call, ok := cmp.Y.(*ssa.Call); ok {
			if bi, ok := call.Call.Value.(*ssa.Builtin); ok && bi.Name() == "len" && len(call.Call.Args) == 1 && outside(call.Call.Args[0]) {
				switch x := e.val(fr, st, call.Call.Args[0]).(type) {
				case SliceV:
					bound = x.Len
				case StrV:
					bound = x.Len
				}
			}
		}
		if bound != nil {
			out = append(out, Le(xt, bound))
			if !bound.IsNum() {
				symbolic = true
			}
		}
	}
	return out, symbolic
}

func (e *Engine) checkAutoInv(fr *Frame, st *State, ord int, ts []*Term, which string) {
	for k, t := range ts {
		name := fmt.Sprintf("%s/autoinv%d.%s%s#%d", e.curFn, ord, which, fr.callPath, k+1)
		e.addObl(st, name, "inv", nil, t, "inferred loop bound ("+which+")", "")
	}
}
