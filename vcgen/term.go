package main

// SMT term construction with light constant folding. Integers are mathematical
// (SMT Int); machine-width behaviour is made explicit by the executor (mod 2^n
// for narrow unsigned types, overflow side obligations for int/int64).

import (
	"fmt"
	"math/big"
	"sort"
	"strings"
)

const (
	SInt   = "Int"
	SBool  = "Bool"
	SArrB  = "(Array Int Int)"       // byte / int arrays
	SStr   = "tq_Str"                // datatype (arr, off, len)
	SArrS  = "(Array Int tq_Str)"    // arrays of strings (Args)
	SSeq   = "tq_Seq"                // abstract byte sequences (hash inputs)
	SRef   = "tq_Ref"                // opaque values
	SArrR  = "(Array Int tq_Ref)"    // arrays of opaque values
	SSet   = "(Array Int Bool)"      // sets of Int keys
	SSetR  = "(Array tq_Ref Bool)"   // sets of opaque keys
	SMapR  = "(Array tq_Ref tq_Ref)" // abstract maps
	SMapRI = "(Array tq_Ref Int)"    // ghost counters per object (gauges)
)

type Term struct {
	Op   string
	Args []*Term
	Sort string
	Num  *big.Int // non-nil for integer literals
	// quantifier data
	Bound []*Term
	Pats  [][]*Term
	// known facts for bit tricks (may be nil/0 = unknown)
	Hi  *big.Int // inclusive upper bound, term known >= 0 when Hi != nil
	Tz  int      // known to be a multiple of 2^Tz
	str string
	id  int
	fbv []string // free bound variables (quantifier-bound names occurring free)
	sz  int      // DAG-unaware size estimate, saturating
}

// ---- hash consing: structurally equal terms are pointer-equal ----

var internTab = map[string]*Term{}
var termCount int

func intern(t *Term) *Term {
	var b strings.Builder
	b.WriteString(t.Op)
	b.WriteByte('|')
	b.WriteString(t.Sort)
	if t.Num != nil {
		b.WriteByte('#')
		b.WriteString(t.Num.String())
	}
	for _, a := range t.Args {
		fmt.Fprintf(&b, ",%d", a.id)
	}
	for _, v := range t.Bound {
		fmt.Fprintf(&b, ";%d", v.id)
	}
	for _, p := range t.Pats {
		b.WriteByte('/')
		for _, q := range p {
			fmt.Fprintf(&b, ":%d", q.id)
		}
	}
	k := b.String()
	if old, ok := internTab[k]; ok {
		return old
	}
	termCount++
	t.id = termCount
	// free bound variables and size
	sz := 1
	var fb []string
	if t.IsVar() && strings.Contains(t.Op, "!") {
		fb = []string{t.VarName()}
	}
	for _, a := range t.Args {
		sz += a.sz
		fb = mergeNames(fb, a.fbv)
	}
	for _, p := range t.Pats {
		for _, q := range p {
			fb = mergeNames(fb, q.fbv)
		}
	}
	if len(t.Bound) > 0 {
		var keep []string
		for _, n := range fb {
			own := false
			for _, v := range t.Bound {
				if v.VarName() == n {
					own = true
				}
			}
			if !own {
				keep = append(keep, n)
			}
		}
		fb = keep
	}
	if sz > 1<<30 {
		sz = 1 << 30
	}
	t.sz = sz
	t.fbv = fb
	internTab[k] = t
	return t
}

func mergeNames(a, b []string) []string {
	if len(b) == 0 {
		return a
	}
	if len(a) == 0 {
		return b
	}
	out := append([]string{}, a...)
	for _, n := range b {
		found := false
		for _, m := range out {
			if m == n {
				found = true
				break
			}
		}
		if !found {
			out = append(out, n)
		}
	}
	return out
}

var (
	TTrue  = intern(&Term{Op: "true", Sort: SBool})
	TFalse = intern(&Term{Op: "false", Sort: SBool})
)

func Num(n int64) *Term { return NumB(big.NewInt(n)) }
func NumB(n *big.Int) *Term {
	t := intern(&Term{Op: "num", Sort: SInt, Num: new(big.Int).Set(n)})
	if t.Hi != nil || n.Sign() < 0 {
		return t
	}
	if n.Sign() >= 0 {
		t.Hi = t.Num
		if n.Sign() > 0 {
			t.Tz = int(n.TrailingZeroBits())
		} else {
			t.Tz = 64
		}
	}
	return t
}
func Bool(b bool) *Term {
	if b {
		return TTrue
	}
	return TFalse
}
func Var(name, srt string) *Term { return intern(&Term{Op: "var:" + name, Sort: srt}) }
func (t *Term) IsVar() bool      { return strings.HasPrefix(t.Op, "var:") }
func (t *Term) VarName() string  { return t.Op[4:] }
func (t *Term) IsNum() bool      { return t.Num != nil }
func (t *Term) IsTrue() bool     { return t == TTrue || t.Op == "true" }
func (t *Term) IsFalse() bool    { return t == TFalse || t.Op == "false" }
func (t *Term) Int64() (int64, bool) {
	if t.Num != nil && t.Num.IsInt64() {
		return t.Num.Int64(), true
	}
	return 0, false
}

func App(op, srt string, args ...*Term) *Term { return intern(&Term{Op: op, Sort: srt, Args: args}) }

func withHi(t *Term, hi *big.Int) *Term { t.Hi = hi; return t }

func (t *Term) String() string {
	if t.str != "" {
		return t.str
	}
	var s string
	switch {
	case t.Num != nil:
		if t.Num.Sign() < 0 {
			s = "(- " + new(big.Int).Neg(t.Num).String() + ")"
		} else {
			s = t.Num.String()
		}
	case t.IsVar():
		s = t.VarName()
	case t.Op == "forall" || t.Op == "exists":
		var b strings.Builder
		b.WriteString("(" + t.Op + " (")
		for _, v := range t.Bound {
			fmt.Fprintf(&b, "(%s %s)", v.VarName(), v.Sort)
		}
		b.WriteString(") ")
		if len(t.Pats) > 0 {
			b.WriteString("(! " + t.Args[0].String())
			for _, p := range t.Pats {
				b.WriteString(" :pattern (")
				for i, q := range p {
					if i > 0 {
						b.WriteString(" ")
					}
					b.WriteString(q.String())
				}
				b.WriteString(")")
			}
			b.WriteString(")")
		} else {
			b.WriteString(t.Args[0].String())
		}
		b.WriteString(")")
		s = b.String()
	case t.Op == "constarr":
		s = fmt.Sprintf("((as const %s) %s)", t.Sort, t.Args[0].String())
	case len(t.Args) == 0:
		s = t.Op
	default:
		var b strings.Builder
		b.WriteString("(" + t.Op)
		for _, a := range t.Args {
			b.WriteString(" ")
			b.WriteString(a.String())
		}
		b.WriteString(")")
		s = b.String()
	}
	t.str = s
	return s
}

// ---------- boolean ----------

func Not(a *Term) *Term {
	switch {
	case a.IsTrue():
		return TFalse
	case a.IsFalse():
		return TTrue
	case a.Op == "not":
		return a.Args[0]
	}
	return App("not", SBool, a)
}

func And(as ...*Term) *Term {
	var out []*Term
	for _, a := range as {
		if a == nil || a.IsTrue() {
			continue
		}
		if a.IsFalse() {
			return TFalse
		}
		if a.Op == "and" {
			out = append(out, a.Args...)
		} else {
			out = append(out, a)
		}
	}
	switch len(out) {
	case 0:
		return TTrue
	case 1:
		return out[0]
	}
	return App("and", SBool, out...)
}

func Or(as ...*Term) *Term {
	var out []*Term
	for _, a := range as {
		if a == nil || a.IsFalse() {
			continue
		}
		if a.IsTrue() {
			return TTrue
		}
		if a.Op == "or" {
			out = append(out, a.Args...)
		} else {
			out = append(out, a)
		}
	}
	switch len(out) {
	case 0:
		return TFalse
	case 1:
		return out[0]
	}
	return App("or", SBool, out...)
}

func Implies(a, b *Term) *Term {
	if a.IsTrue() {
		return b
	}
	if a.IsFalse() || b.IsTrue() {
		return TTrue
	}
	if b.IsFalse() {
		return Not(a)
	}
	return App("=>", SBool, a, b)
}

func Iff(a, b *Term) *Term {
	if a.IsTrue() {
		return b
	}
	if b.IsTrue() {
		return a
	}
	if a.IsFalse() {
		return Not(b)
	}
	if b.IsFalse() {
		return Not(a)
	}
	if a == b {
		return TTrue
	}
	return App("=", SBool, a, b)
}

func Ite(c, a, b *Term) *Term {
	if c.IsTrue() {
		return a
	}
	if c.IsFalse() {
		return b
	}
	if a == b {
		return a
	}
	if a.Sort == SBool {
		if a.IsTrue() && b.IsFalse() {
			return c
		}
		if a.IsFalse() && b.IsTrue() {
			return Not(c)
		}
	}
	t := App("ite", a.Sort, c, a, b)
	if a.Hi != nil && b.Hi != nil {
		if a.Hi.Cmp(b.Hi) > 0 {
			t.Hi = a.Hi
		} else {
			t.Hi = b.Hi
		}
		if a.Tz < b.Tz {
			t.Tz = a.Tz
		} else {
			t.Tz = b.Tz
		}
	}
	return t
}

func Eq(a, b *Term) *Term {
	if a.Sort == SBool {
		return Iff(a, b)
	}
	if a.Num != nil && b.Num != nil {
		return Bool(a.Num.Cmp(b.Num) == 0)
	}
	if a == b {
		return TTrue
	}
	if a.Sort != b.Sort {
		panic(fmt.Sprintf("Eq sort mismatch %s:%s vs %s:%s", a, a.Sort, b, b.Sort))
	}
	return App("=", SBool, a, b)
}

func Ne(a, b *Term) *Term { return Not(Eq(a, b)) }

// ---------- integers ----------

func cmp(op string, a, b *Term, f func(int) bool) *Term {
	if a.Num != nil && b.Num != nil {
		return Bool(f(a.Num.Cmp(b.Num)))
	}
	if a.Sort != SInt || b.Sort != SInt {
		panic(fmt.Sprintf("cmp %s on non-int %s:%s %s:%s", op, a, a.Sort, b, b.Sort))
	}
	return App(op, SBool, a, b)
}
func Lt(a, b *Term) *Term { return cmp("<", a, b, func(c int) bool { return c < 0 }) }
func Le(a, b *Term) *Term {
	if a == b {
		return TTrue
	}
	return cmp("<=", a, b, func(c int) bool { return c <= 0 })
}
func Gt(a, b *Term) *Term { return Lt(b, a) }
func Ge(a, b *Term) *Term { return Le(b, a) }

func Add(a, b *Term) *Term {
	if a.Num != nil && b.Num != nil {
		return NumB(new(big.Int).Add(a.Num, b.Num))
	}
	if a.Num != nil && a.Num.Sign() == 0 {
		return b
	}
	if b.Num != nil && b.Num.Sign() == 0 {
		return a
	}
	// (x + c1) + c2
	if b.Num != nil && a.Op == "+" && len(a.Args) == 2 && a.Args[1].Num != nil {
		return Add(a.Args[0], NumB(new(big.Int).Add(a.Args[1].Num, b.Num)))
	}
	if a.Num != nil {
		a, b = b, a
	}
	t := App("+", SInt, a, b)
	if a.Hi != nil && b.Hi != nil {
		t.Hi = new(big.Int).Add(a.Hi, b.Hi)
		if a.Tz < b.Tz {
			t.Tz = a.Tz
		} else {
			t.Tz = b.Tz
		}
	}
	return t
}

func Sub(a, b *Term) *Term {
	if a.Num != nil && b.Num != nil {
		return NumB(new(big.Int).Sub(a.Num, b.Num))
	}
	if b.Num != nil {
		if b.Num.Sign() == 0 {
			return a
		}
		return Add(a, NumB(new(big.Int).Neg(b.Num)))
	}
	if a == b {
		return Num(0)
	}
	// (x + y) - y
	if a.Op == "+" && len(a.Args) == 2 {
		if a.Args[1] == b {
			return a.Args[0]
		}
		if a.Args[0] == b {
			return a.Args[1]
		}
	}
	return App("-", SInt, a, b)
}

func Neg(a *Term) *Term { return Sub(Num(0), a) }

func Mul(a, b *Term) *Term {
	if a.Num != nil && b.Num != nil {
		return NumB(new(big.Int).Mul(a.Num, b.Num))
	}
	if a.Num != nil {
		a, b = b, a
	}
	if b.Num != nil {
		if b.Num.Sign() == 0 {
			return Num(0)
		}
		if b.Num.Cmp(big.NewInt(1)) == 0 {
			return a
		}
	}
	t := App("*", SInt, a, b)
	if a.Hi != nil && b.Hi != nil {
		t.Hi = new(big.Int).Mul(a.Hi, b.Hi)
		t.Tz = a.Tz + b.Tz
		if t.Tz > 64 {
			t.Tz = 64
		}
	}
	return t
}

// Div / Mod are SMT-LIB div/mod (floor for positive divisor); the executor only
// uses them with operands known non-negative or with constant positive divisor
// on unsigned types, where they coincide with Go's.
func Div(a, b *Term) *Term {
	if a.Num != nil && b.Num != nil && b.Num.Sign() > 0 && a.Num.Sign() >= 0 {
		return NumB(new(big.Int).Div(a.Num, b.Num))
	}
	if b.Num != nil && b.Num.Cmp(big.NewInt(1)) == 0 {
		return a
	}
	t := App("div", SInt, a, b)
	if a.Hi != nil && b.Num != nil && b.Num.Sign() > 0 {
		t.Hi = new(big.Int).Div(a.Hi, b.Num)
	}
	return t
}

func Mod(a, b *Term) *Term {
	if a.Num != nil && b.Num != nil && b.Num.Sign() > 0 {
		return NumB(new(big.Int).Mod(a.Num, b.Num))
	}
	if b.Num != nil && b.Num.Sign() > 0 && a.Hi != nil && a.Hi.Cmp(b.Num) < 0 {
		return a // already in range
	}
	if b.Num != nil && b.Num.Sign() > 0 && a.Op == "mod" && a.Args[1].Num != nil {
		// (x mod m) mod n with n | m  ==> x mod n
		if new(big.Int).Mod(a.Args[1].Num, b.Num).Sign() == 0 {
			return Mod(a.Args[0], b)
		}
	}
	t := App("mod", SInt, a, b)
	if b.Num != nil && b.Num.Sign() > 0 {
		t.Hi = new(big.Int).Sub(b.Num, big.NewInt(1))
		// multiple of 2^k is preserved by mod 2^m
		if a.Tz > 0 && b.Num.TrailingZeroBits() > 0 && new(big.Int).Lsh(big.NewInt(1), b.Num.TrailingZeroBits()).Cmp(b.Num) == 0 {
			t.Tz = a.Tz
			if uint(t.Tz) > b.Num.TrailingZeroBits() {
				t.Tz = int(b.Num.TrailingZeroBits())
			}
		}
	}
	return t
}

func Pow2(k int) *Term { return NumB(new(big.Int).Lsh(big.NewInt(1), uint(k))) }

func Min(a, b *Term) *Term { return Ite(Le(a, b), a, b) }

// ---------- arrays ----------

func elemSort(arr string) string {
	switch arr {
	case SArrB:
		return SInt
	case SArrS:
		return SStr
	case SArrR:
		return SRef
	case SSet, SSetR:
		return SBool
	case SMapR:
		return SRef
	case SMapRI:
		return SInt
	}
	panic("elemSort of " + arr)
}

func Select(a, i *Term) *Term {
	// select over concrete store chain
	cur := a
	for cur.Op == "store" {
		j := cur.Args[1]
		if j == i {
			return cur.Args[2]
		}
		if j.Num != nil && i.Num != nil {
			cur = cur.Args[0]
			continue
		}
		// (x + c1) vs (x + c2) with c1 != c2
		if distinctOffsets(i, j) {
			cur = cur.Args[0]
			continue
		}
		break
	}
	if cur.Op == "constarr" {
		return cur.Args[0]
	}
	t := App("select", elemSort(a.Sort), cur, i)
	if cur != a {
		t = App("select", elemSort(a.Sort), cur, i)
	}
	return t
}

func baseOff(t *Term) (int, *big.Int) {
	if t.Num != nil {
		return 0, t.Num
	}
	if t.Op == "+" && len(t.Args) == 2 && t.Args[1].Num != nil {
		return t.Args[0].id, t.Args[1].Num
	}
	return t.id, big.NewInt(0)
}

func distinctOffsets(a, b *Term) bool {
	ba, oa := baseOff(a)
	bb, ob := baseOff(b)
	return ba == bb && oa.Cmp(ob) != 0
}

func Store(a, i, v *Term) *Term {
	if v.Sort != elemSort(a.Sort) {
		panic(fmt.Sprintf("Store sort mismatch: %s into %s", v.Sort, a.Sort))
	}
	return App("store", a.Sort, a, i, v)
}

func ConstArr(srt string, v *Term) *Term {
	return App("constarr", srt, v)
}

// ---------- quantifiers ----------

var boundCounter int

func FreshBound(prefix, srt string) *Term {
	boundCounter++
	return Var(fmt.Sprintf("%s!%d", prefix, boundCounter), srt)
}

func Forall(bound []*Term, body *Term, pats ...[]*Term) *Term {
	if body.IsTrue() {
		return TTrue
	}
	// a multi-pattern must be made of applications and mention every bound variable
	var good [][]*Term
	for _, p := range pats {
		covered := map[string]bool{}
		ok := len(p) > 0
		for _, q := range p {
			if len(q.Args) == 0 || len(q.fbv) == 0 {
				ok = false
			}
			for _, n := range q.fbv {
				covered[n] = true
			}
		}
		for _, b := range bound {
			if !covered[b.VarName()] {
				ok = false
			}
		}
		if ok {
			good = append(good, p)
		}
	}
	pats = good
	return intern(&Term{Op: "forall", Sort: SBool, Args: []*Term{body}, Bound: bound, Pats: pats})
}

func Exists(bound []*Term, body *Term) *Term {
	if body.IsFalse() {
		return TFalse
	}
	return intern(&Term{Op: "exists", Sort: SBool, Args: []*Term{body}, Bound: bound})
}

// ---------- traversal ----------

func (t *Term) walk(f func(*Term) bool) {
	if !f(t) {
		return
	}
	for _, a := range t.Args {
		a.walk(f)
	}
	for _, p := range t.Pats {
		for _, q := range p {
			q.walk(f)
		}
	}
}

// FreeVars collects free variables (name -> sort) of the terms.
func FreeVars(ts []*Term, into map[string]string) {
	var rec func(t *Term, bound map[string]bool)
	seen := map[*Term]bool{}
	rec = func(t *Term, bound map[string]bool) {
		if len(bound) == 0 {
			if seen[t] {
				return
			}
			seen[t] = true
		}
		if t.IsVar() {
			if !bound[t.VarName()] {
				into[t.VarName()] = t.Sort
			}
			return
		}
		b2 := bound
		if len(t.Bound) > 0 {
			b2 = map[string]bool{}
			for k := range bound {
				b2[k] = true
			}
			for _, v := range t.Bound {
				b2[v.VarName()] = true
			}
		}
		for _, a := range t.Args {
			rec(a, b2)
		}
		for _, p := range t.Pats {
			for _, q := range p {
				rec(q, b2)
			}
		}
	}
	for _, t := range ts {
		rec(t, nil)
	}
}

// Subst replaces variables by terms (capture is avoided because bound names are globally fresh).
func Subst(t *Term, m map[string]*Term) *Term {
	if len(m) == 0 {
		return t
	}
	if t.IsVar() {
		if r, ok := m[t.VarName()]; ok {
			return r
		}
		return t
	}
	if len(t.Args) == 0 {
		return t
	}
	changed := false
	args := make([]*Term, len(t.Args))
	for i, a := range t.Args {
		args[i] = Subst(a, m)
		if args[i] != a {
			changed = true
		}
	}
	var pats [][]*Term
	for _, p := range t.Pats {
		var np []*Term
		for _, q := range p {
			nq := Subst(q, m)
			if nq != q {
				changed = true
			}
			np = append(np, nq)
		}
		pats = append(pats, np)
	}
	if !changed {
		return t
	}
	return rebuild(t, args, pats)
}

// rebuild re-runs the smart constructors so that substitution of constants folds.
func rebuild(t *Term, args []*Term, pats [][]*Term) *Term {
	switch t.Op {
	case "forall", "exists":
		return intern(&Term{Op: t.Op, Sort: SBool, Args: args, Bound: t.Bound, Pats: pats})
	case "not":
		return Not(args[0])
	case "and":
		return And(args...)
	case "or":
		return Or(args...)
	case "=>":
		return Implies(args[0], args[1])
	case "ite":
		return Ite(args[0], args[1], args[2])
	case "=":
		return Eq(args[0], args[1])
	case "<":
		return Lt(args[0], args[1])
	case "<=":
		return Le(args[0], args[1])
	case "+":
		if len(args) == 2 {
			return Add(args[0], args[1])
		}
	case "-":
		if len(args) == 2 {
			return Sub(args[0], args[1])
		}
	case "*":
		if len(args) == 2 {
			return Mul(args[0], args[1])
		}
	case "div":
		return Div(args[0], args[1])
	case "mod":
		return Mod(args[0], args[1])
	case "select":
		return Select(args[0], args[1])
	case "store":
		return Store(args[0], args[1], args[2])
	case "constarr":
		return ConstArr(t.Sort, args[0])
	}
	nt := intern(&Term{Op: t.Op, Sort: t.Sort, Args: args})
	if nt.Hi == nil && t.Hi != nil {
		nt.Hi, nt.Tz = t.Hi, t.Tz
	}
	return nt
}

func sortedKeys(m map[string]string) []string {
	ks := make([]string, 0, len(m))
	for k := range m {
		ks = append(ks, k)
	}
	sort.Strings(ks)
	return ks
}

// ---------- DAG-aware printing ----------

type dagPrinter struct {
	refs  map[*Term]int
	names map[*Term]string
	defs  []string
	memo  map[*Term]string
	n     int
	pref  string
}

func newDagPrinter(roots []*Term) *dagPrinter {
	p := &dagPrinter{refs: map[*Term]int{}, names: map[*Term]string{}, memo: map[*Term]string{}}
	var count func(t *Term)
	count = func(t *Term) {
		p.refs[t]++
		if p.refs[t] > 1 {
			return
		}
		for _, a := range t.Args {
			count(a)
		}
		for _, ps := range t.Pats {
			for _, q := range ps {
				count(q)
			}
		}
	}
	for _, r := range roots {
		count(r)
	}
	return p
}

func (p *dagPrinter) pr(t *Term) string {
	if n, ok := p.names[t]; ok {
		return n
	}
	if s, ok := p.memo[t]; ok {
		return s
	}
	var s string
	switch {
	case t.Num != nil:
		if t.Num.Sign() < 0 {
			s = "(- " + new(big.Int).Neg(t.Num).String() + ")"
		} else {
			s = t.Num.String()
		}
	case t.IsVar():
		s = t.VarName()
	case t.Op == "forall" || t.Op == "exists":
		var b strings.Builder
		b.WriteString("(" + t.Op + " (")
		for _, v := range t.Bound {
			fmt.Fprintf(&b, "(%s %s)", v.VarName(), v.Sort)
		}
		b.WriteString(") ")
		if len(t.Pats) > 0 {
			b.WriteString("(! " + p.pr(t.Args[0]))
			for _, ps := range t.Pats {
				b.WriteString(" :pattern (")
				for i, q := range ps {
					if i > 0 {
						b.WriteString(" ")
					}
					b.WriteString(p.pr(q))
				}
				b.WriteString(")")
			}
			b.WriteString(")")
		} else {
			b.WriteString(p.pr(t.Args[0]))
		}
		b.WriteString(")")
		s = b.String()
	case t.Op == "constarr":
		s = fmt.Sprintf("((as const %s) %s)", t.Sort, p.pr(t.Args[0]))
	case len(t.Args) == 0:
		s = t.Op
	default:
		var b strings.Builder
		b.WriteString("(" + t.Op)
		for _, a := range t.Args {
			b.WriteString(" ")
			b.WriteString(p.pr(a))
		}
		b.WriteString(")")
		s = b.String()
	}
	// hoist shared or large closed terms into definitions
	if len(t.fbv) == 0 && len(t.Args) > 0 && ((p.refs[t] >= 2 && len(s) > 24) || len(s) > 400) {
		p.n++
		name := fmt.Sprintf("tq_d%s%d", p.pref, p.n)
		p.defs = append(p.defs, fmt.Sprintf("(define-fun %s () %s %s)", name, t.Sort, s))
		p.names[t] = name
		return name
	}
	p.memo[t] = s
	return s
}
