package main

// Value domain of the symbolic executor. Scalars are SMT terms; aggregates are
// executor-level trees whose leaves are terms. Memory is a set of executor-level
// objects (Obj) — pointers and slices refer to them directly, so aliasing is
// decided by the executor, never by the solver.

import (
	"fmt"
	"go/types"
	"strings"
)

type Value interface{}

// StrV is a Go string: bytes Arr[Off .. Off+Len). SMT arrays are values, so
// sharing the array term is a snapshot (copy) — strings are immutable.
type StrV struct {
	Arr, Off, Len *Term
	Lit           *string // literal content, when the string is a compile-time constant
	Cat           []StrV  // operands, when the string was built by concatenation
	Taint         uint8   // taint label bits: the value carries secret material (C18)
}

// SliceV is a slice header over a backing object.
type SliceV struct {
	Obj           *Obj
	Off, Len, Cap *Term
	Nil           *Term // Bool: header is the nil slice (then Len == Cap == 0)
	Elem          types.Type
}

// PtrV points into object Obj at Path (struct field indices; an *Term entry is an array index).
type PtrV struct {
	Obj  *Obj
	Path []interface{} // int (field) or *Term (index)
	Nil  *Term         // Bool
	Elem types.Type    // pointee type
}

type StructV struct {
	T *types.Struct
	F []Value
}

// ArrV is the content of a backing array object: concrete-index overlay on an
// optional SMT array. Elements whose Go type has no SMT sort live in Conc only.
type ArrV struct {
	Elem types.Type
	Base *Term // SMT array or nil
	Conc map[int64]Value
}

// IfaceV: Dyn != nil → concrete dynamic type with payload V. Sym != nil → symbolic.
// Both nil → the nil interface.
type IfaceV struct {
	Dyn types.Type
	V   Value
	Sym *SymIface
}

type SymIface struct {
	ID     int
	Name   string
	T      types.Type // static interface type
	Nil    *Term      // Bool
	Tag    *Term      // Int: type id of the dynamic type (meaningful when !Nil)
	Ref    *Term      // SRef identity
	Cases  map[string]Value
	CaseT  map[string]types.Type
	Closed bool // the dynamic type is nil or one of CaseT (merge of concrete alternatives)
	Taint  uint8
}

// FuncV: Fn != nil → known function with bound free variables. Otherwise symbolic.
type FuncV struct {
	Fn    interface{} // *ssa.Function or *ssa.Builtin
	Bound []Value
	Recv  Value // for bound method closures made by the executor
	Sym   *Term // SRef for symbolic closures
	Nil   *Term
	Sig   *types.Signature
}

type TupleV []Value

// MapV is a reference to a map object (content = MapC in the heap).
type MapV struct {
	Obj *Obj
	Nil *Term
	T   *types.Map
}

// MapC: abstract view of a map — domain set + value array, keyed by a term key.
type MapC struct {
	KeySort string
	Dom     *Term // (Array K Bool)
	Card    *Term // Int: |Dom|
	ValT    types.Type
	// values: for scalar value types an SMT array; otherwise executor-level
	// association list of (key term -> Value), most recent first, over a symbolic rest.
	Vals   *Term
	Assoc  []MapEntry
	RestID string // names the unknown remainder (for fresh values on lookup)
}
type MapEntry struct {
	Key *Term
	Val Value // nil = deleted
}

// OpaqueV: a value the executor does not model (channels, contexts, …).
type OpaqueV struct {
	Ref *Term
	T   types.Type
}

// ChanV etc. are all OpaqueV.

type Obj struct {
	ID       int
	Name     string
	T        types.Type // content type (struct / array elem container / scalar)
	IsArr    bool
	Fresh    bool // allocated during this function (not visible to caller before)
	MayAlias *Obj // result of append on a caller-visible array: may share it (growth in place)
	Sym      bool // identity unknown: placeholder created by a havoc (contract result, modifies, loop target)
}

func (o *Obj) String() string { return fmt.Sprintf("%s#%d", o.Name, o.ID) }

// ---------- State ----------

type Obligation struct {
	Name  string // pkg.Func/kind#k
	Kind  string
	Tags  []string
	Path  int
	Pos   string
	Hyps  []*Term
	Goal  *Term
	Desc  string
	Bytes map[string]bool // byte-typed array vars
	Trust map[string]bool
}

type State struct {
	heap   map[*Obj]Value
	pc     []*Term
	ghost  map[string]Value
	events []string
	// loop bookkeeping: heads whose invariant has been assumed on this path
	inLoop map[int]bool
	// debug variable bindings (source name -> value or pointer to its alloc)
	vars map[string]Value
	dead bool
	// taint labels of objects (byte arrays, maps) and taint keys of maps (C18)
	taint    map[*Obj]uint8
	taintKey map[*Obj]map[string]bool
	// strings known not to occur in a slice of strings (assumed nolit(...) facts)
	sliceExcl map[*Obj]map[string]bool
	// labels of symbolic interface values, by reference term (they survive boxing into arrays)
	taintRef map[string]uint8
	// channels closed on this path (by reference term): a second close, or a send, panics
	closedCh map[string]bool
}

func (s *State) clone() *State {
	n := &State{
		heap:     make(map[*Obj]Value, len(s.heap)),
		pc:       append([]*Term(nil), s.pc...),
		ghost:    make(map[string]Value, len(s.ghost)),
		inLoop:   make(map[int]bool, len(s.inLoop)),
		vars:     make(map[string]Value, len(s.vars)),
		taint:    make(map[*Obj]uint8, len(s.taint)),
		taintKey: make(map[*Obj]map[string]bool, len(s.taintKey)),
	}
	for k, v := range s.taint {
		n.taint[k] = v
	}
	for k, v := range s.taintKey {
		n.taintKey[k] = v
	}
	if len(s.taintRef) > 0 {
		n.taintRef = make(map[string]uint8, len(s.taintRef))
		for k, b := range s.taintRef {
			n.taintRef[k] = b
		}
	}
	if len(s.closedCh) > 0 {
		n.closedCh = make(map[string]bool, len(s.closedCh))
		for k, b := range s.closedCh {
			n.closedCh[k] = b
		}
	}
	if len(s.sliceExcl) > 0 {
		n.sliceExcl = make(map[*Obj]map[string]bool, len(s.sliceExcl))
		for k, v := range s.sliceExcl {
			n.sliceExcl[k] = v
		}
	}
	for k, v := range s.heap {
		n.heap[k] = v
	}
	for k, v := range s.ghost {
		n.ghost[k] = v
	}
	for k, v := range s.inLoop {
		n.inLoop[k] = v
	}
	for k, v := range s.vars {
		n.vars[k] = v
	}
	n.events = append([]string(nil), s.events...)
	return n
}

func (s *State) assume(t *Term) {
	if t == nil || t.IsTrue() {
		return
	}
	if t.IsFalse() {
		s.dead = true
	}
	if t.Op == "and" {
		for _, a := range t.Args {
			s.assume(a)
		}
		return
	}
	s.pc = append(s.pc, t)
}

// ---------- type helpers ----------

func under(t types.Type) types.Type { return t.Underlying() }

func isString(t types.Type) bool {
	b, ok := under(t).(*types.Basic)
	return ok && b.Info()&types.IsString != 0
}
func isInteger(t types.Type) bool {
	b, ok := under(t).(*types.Basic)
	return ok && b.Info()&types.IsInteger != 0
}
func isBool(t types.Type) bool {
	b, ok := under(t).(*types.Basic)
	return ok && b.Info()&types.IsBoolean != 0
}
func isFloat(t types.Type) bool {
	b, ok := under(t).(*types.Basic)
	return ok && b.Info()&(types.IsFloat|types.IsComplex) != 0
}
func isUnsigned(t types.Type) bool {
	b, ok := under(t).(*types.Basic)
	return ok && b.Info()&types.IsUnsigned != 0
}
func isByteSlice(t types.Type) bool {
	s, ok := under(t).(*types.Slice)
	if !ok {
		return false
	}
	b, ok := under(s.Elem()).(*types.Basic)
	return ok && (b.Kind() == types.Uint8)
}

// intBits returns the bit width of an integer type (64 for int/uint/uintptr).
func intBits(t types.Type) int {
	b, ok := under(t).(*types.Basic)
	if !ok {
		return 64
	}
	switch b.Kind() {
	case types.Int8, types.Uint8:
		return 8
	case types.Int16, types.Uint16:
		return 16
	case types.Int32, types.Uint32:
		return 32
	}
	return 64
}

// elemArrSort: SMT array sort for arrays of this element type ("" = none).
func elemArrSort(t types.Type) string {
	switch {
	case isInteger(t):
		return SArrB
	case isString(t):
		return SArrS
	}
	if _, ok := under(t).(*types.Interface); ok {
		return SArrR
	}
	if isExternalPtr(t) {
		return SArrR
	}
	return ""
}

// isExternalPtr: a pointer to a named struct type declared outside the repository's module
// (net.IPNet, …). The code under contract can only pass such pointers around, compare them and
// hand them to external functions, so a slice of them is an SMT array of identities.
func isExternalPtr(t types.Type) bool {
	pt, ok := under(t).(*types.Pointer)
	if !ok {
		return false
	}
	n, ok := pt.Elem().(*types.Named)
	if !ok || n.Obj().Pkg() == nil {
		return false
	}
	if _, isStruct := n.Underlying().(*types.Struct); !isStruct {
		return false
	}
	return !strings.HasPrefix(n.Obj().Pkg().Path(), "github.com/facebookincubator/tacquito")
}

func typeStr(t types.Type) string {
	return types.TypeString(t, func(p *types.Package) string {
		if p == nil {
			return ""
		}
		path := p.Path()
		if i := strings.LastIndex(path, "/"); i >= 0 {
			// keep full path for disambiguation only where needed
			return path[i+1:]
		}
		return path
	})
}
