package main

import (
	"fmt"
	"go/types"
	"os"
	"sort"
	"strings"

	"golang.org/x/tools/go/ssa"
)

const maxInlineDepth = 14

var inlineStdPkgs = map[string]bool{
	"encoding/binary": true,
}

// checkBefore: `before <callee> : expr` clauses of the enclosing contract are proof obligations
// at every call whose callee key ends with <callee>.
func (e *Engine) checkBefore(fr *Frame, st *State, c *ssa.CallCommon, ins ssa.Instruction) {
	if fr.con == nil || len(fr.con.Asserts) == 0 {
		return
	}
	var key string
	if c.IsInvoke() {
		key = ifaceKey(c.Value.Type(), c.Method.Name())
	} else if fn := c.StaticCallee(); fn != nil {
		key = funcKey(fn)
	} else {
		return
	}
	for suffix, cls := range fr.con.Asserts {
		if !strings.HasSuffix(key, suffix) {
			continue
		}
		ctx := e.invCtx(fr, st)
		if c.IsInvoke() {
			ctx.bind["arg0"] = e.val(fr, st, c.Value)
			for i, a := range c.Args {
				ctx.bind[fmt.Sprintf("arg%d", i+1)] = e.val(fr, st, a)
			}
		} else {
			for i, a := range c.Args {
				ctx.bind[fmt.Sprintf("arg%d", i)] = e.val(fr, st, a)
			}
		}
		for _, cl := range cls {
			if !hasTag(cl.Tags, e.curTags) {
				continue
			}
			g, note := ctx.goal(cl.E)
			name := fmt.Sprintf("%s/before@%s%s#%d.%d", e.curFn, key, fr.callPath, e.ordinal(fr.fn, ins, ""), cl.Ord)
			e.addObl(st, name, "pre", cl.Tags, g, "obligation before calling "+key+": "+cl.Text+note, e.posStr(ins.Pos()))
		}
	}
}

// runAfter executes the `after <callee> : ghost = expr` statements of the enclosing contract.
func (e *Engine) runAfter(fr *Frame, c *ssa.CallCommon, outs []Outcome) {
	if fr.con == nil || len(fr.con.Afters) == 0 {
		return
	}
	var key string
	if c.IsInvoke() {
		key = ifaceKey(c.Value.Type(), c.Method.Name())
	} else if fn := c.StaticCallee(); fn != nil {
		key = funcKey(fn)
	} else {
		return
	}
	for _, as := range fr.con.Afters {
		if !strings.HasSuffix(key, as.Callee) || !hasTag(as.Tags, e.curTags) {
			continue
		}
		for _, o := range outs {
			ctx := e.invCtx(fr, o.st)
			for i, r := range o.results {
				ctx.bind[fmt.Sprintf("ret%d", i)] = r
			}
			s := ctx.soft()
			v := s.eval(as.E)
			if *s.nerr > 0 {
				e.toolError("after %s: cannot evaluate %s (%s)", as.Callee, exprStr(as.E), *s.lastErr)
				continue
			}
			o.st.ghost[as.Ghost] = v
		}
	}
}

func (e *Engine) doCall(fr *Frame, st *State, c *ssa.CallCommon, ins ssa.Instruction, cv *ssa.Call) []Outcome {
	outs := e.doCall1(fr, st, c, ins, cv)
	e.runAfter(fr, c, outs)
	return outs
}

func (e *Engine) doCall1(fr *Frame, st *State, c *ssa.CallCommon, ins ssa.Instruction, cv *ssa.Call) []Outcome {
	e.checkBefore(fr, st, c, ins)
	args := make([]Value, 0, len(c.Args)+1)
	if c.IsInvoke() {
		recv, ok := e.val(fr, st, c.Value).(IfaceV)
		if !ok {
			e.toolError("invoke on non-interface value")
			return []Outcome{{st: st, results: e.freshResults(st, c.Signature())}}
		}
		for _, a := range c.Args {
			args = append(args, e.val(fr, st, a))
		}
		return e.invoke(fr, st, recv, c.Method, args, ins, c.Value.Type())
	}
	for _, a := range c.Args {
		args = append(args, e.val(fr, st, a))
	}
	fv := e.val(fr, st, c.Value)
	f, ok := fv.(FuncV)
	if !ok {
		e.toolError("call of non-function value %T", fv)
		return []Outcome{{st: st, results: e.freshResults(st, c.Signature())}}
	}
	return e.callFuncV(fr, st, f, args, ins, c.Signature())
}

func (e *Engine) callFuncV(fr *Frame, st *State, f FuncV, args []Value, ins ssa.Instruction, sig *types.Signature) []Outcome {
	switch fn := f.Fn.(type) {
	case *ssa.Builtin:
		return []Outcome{{st: st, results: e.builtin(fr, st, fn, args, ins)}}
	case *ssa.Function:
		if f.Recv != nil {
			args = append([]Value{f.Recv}, args...)
		}
		return e.callFn(fr, st, fn, args, f.Bound, ins)
	}
	// symbolic function value
	e.nilCheck(fr, st, ins, f.Nil, "call of nil function")
	if sig == nil {
		sig = f.Sig
	}
	// function-type contract, keyed by the named func type if any
	e.noteAssumption("call of unknown function value in " + funcKey(fr.fn) + ": result unconstrained, no effect on modelled memory")
	res1 := e.freshResults(st, sig)
	e.propagateTaint(st, args, res1)
	return []Outcome{{st: st, results: res1}}
}

func (e *Engine) freshResults(st *State, sig *types.Signature) []Value {
	if sig == nil {
		return nil
	}
	res := make([]Value, sig.Results().Len())
	for i := range res {
		res[i] = e.fresh(st, sig.Results().At(i).Type(), "ret")
	}
	return res
}

func ifaceKey(t types.Type, method string) string {
	if n, ok := t.(*types.Named); ok && n.Obj().Pkg() != nil {
		return shortPkg(n.Obj().Pkg().Path()) + "." + n.Obj().Name() + "." + method
	}
	if n, ok := t.(*types.Named); ok {
		return n.Obj().Name() + "." + method // error.Error
	}
	return typeStr(t) + "." + method
}

func (e *Engine) invoke(fr *Frame, st *State, recv IfaceV, m *types.Func, args []Value, ins ssa.Instruction, staticT types.Type) []Outcome {
	sig := m.Type().(*types.Signature)
	if recv.Sym == nil {
		if recv.Dyn == nil {
			e.oblige(st, fr, "safe.nil", ins, TFalse, "method call on nil interface")
			st.assume(TFalse)
			return nil
		}
		fn := e.prog.LookupMethod(recv.Dyn, m.Pkg(), m.Name())
		if fn == nil {
			e.toolError("no method %s on %s", m.Name(), typeStr(recv.Dyn))
			return []Outcome{{st: st, results: e.freshResults(st, sig)}}
		}
		// wrappers (value method via pointer etc.) are synthetic; unwrap by hand
		return e.callMethod(fr, st, fn, recv.V, recv.Dyn, args, ins)
	}
	// symbolic receiver
	e.oblige(st, fr, "safe.nil", ins, Not(recv.Sym.Nil), "method call on nil interface")
	st.assume(Not(recv.Sym.Nil))
	if recv.Sym.Closed && len(recv.Sym.CaseT) > 0 {
		// the value is one of finitely many concrete alternatives: dispatch on each
		var ks []string
		for k := range recv.Sym.CaseT {
			ks = append(ks, k)
		}
		sort.Strings(ks)
		var all []Outcome
		for i, k := range ks {
			dyn := recv.Sym.CaseT[k]
			s2 := st
			if i < len(ks)-1 {
				s2 = st.clone()
			}
			s2.assume(Eq(recv.Sym.Tag, Num(int64(e.typeID(dyn)))))
			fn := e.prog.LookupMethod(dyn, m.Pkg(), m.Name())
			if fn == nil {
				e.toolError("no method %s on %s", m.Name(), typeStr(dyn))
				continue
			}
			all = append(all, e.callMethod(fr, s2, fn, recv.Sym.Cases[k], dyn, args, ins)...)
		}
		return all
	}
	// embedded interfaces: find the contract under the static type, then under the interface that declares the method
	keys := []string{ifaceKey(staticT, m.Name())}
	if recv.Sym.T != nil {
		keys = append(keys, ifaceKey(recv.Sym.T, m.Name()))
	}
	if rt := sig.Recv(); rt != nil {
		keys = append(keys, ifaceKey(rt.Type(), m.Name()))
	}
	for _, k := range keys {
		if con := e.ifaceCon[k]; con != nil {
			return e.applyContract(fr, st, con, sig, append([]Value{recv}, args...), ins)
		}
	}
	e.noteAssumption("interface method " + keys[0] + " has no contract: result unconstrained, no effect on modelled memory")
	res0 := e.freshResults(st, sig)
	e.propagateTaint(st, append([]Value{recv}, args...), res0)
	return []Outcome{{st: st, results: res0}}
}

// callMethod calls concrete method fn with receiver payload rv of dynamic type dyn.
func (e *Engine) callMethod(fr *Frame, st *State, fn *ssa.Function, rv Value, dyn types.Type, args []Value, ins ssa.Instruction) []Outcome {
	if fn.Synthetic != "" {
		// wrapper/thunk: find the declared method
		name := fn.Name()
		var base types.Type = dyn
		ptr := false
		if p, ok := dyn.(*types.Pointer); ok {
			base = p.Elem()
			ptr = true
		}
		if obj, _, _ := types.LookupFieldOrMethod(base, true, fn.Pkg.Pkg, name); obj != nil {
			if mf, ok := obj.(*types.Func); ok {
				if decl := e.prog.FuncValue(mf); decl != nil && decl.Synthetic == "" {
					wantPtr := false
					if r := mf.Type().(*types.Signature).Recv(); r != nil {
						_, wantPtr = r.Type().(*types.Pointer)
					}
					recvT := mf.Type().(*types.Signature).Recv().Type()
					var bt types.Type = recvT
					if p, ok := recvT.(*types.Pointer); ok {
						bt = p.Elem()
					}
					if types.Identical(bt, base) {
						switch {
						case ptr && !wantPtr:
							p := rv.(PtrV)
							e.nilCheck(fr, st, ins, p.Nil, "value method called through nil pointer")
							rv = e.loadPtr(st, p)
						case !ptr && wantPtr:
							e.toolError("pointer method on non-addressable interface payload")
						}
						return e.callFn(fr, st, decl, append([]Value{rv}, args...), nil, ins)
					}
					// promoted through embedding: fall through to running the wrapper
				}
			}
		}
	}
	return e.callFn(fr, st, fn, append([]Value{rv}, args...), nil, ins)
}

func inRepo(fn *ssa.Function) bool {
	p := fn.Pkg
	if p == nil && fn.Parent() != nil {
		return inRepo(fn.Parent())
	}
	if p == nil {
		if fn.Object() != nil && fn.Object().Pkg() != nil {
			return strings.HasPrefix(fn.Object().Pkg().Path(), modPath)
		}
		return false
	}
	return strings.HasPrefix(p.Pkg.Path(), modPath)
}

func (e *Engine) callFn(fr *Frame, st *State, fn *ssa.Function, args []Value, bound []Value, ins ssa.Instruction) []Outcome {
	key := funcKey(fn)
	con := e.contracts[key]
	if con != nil && (con.Kind == "trusted func" || !con.Inline()) {
		if con.Kind != "trusted func" {
			if con.UsedBy == nil {
				con.UsedBy = map[string]bool{}
			}
			con.UsedBy[e.curFn] = true
		}
		e.pendingFree = map[string]Value{}
		for i, fv := range fn.FreeVars {
			if i < len(bound) {
				e.pendingFree[fv.Name()] = bound[i]
			}
		}
		outs := e.applyContract(fr, st, con, fn.Signature, args, ins)
		e.pendingFree = nil
		return outs
	}
	canInline := len(fn.Blocks) > 0 && (inRepo(fn) || (fn.Pkg != nil && inlineStdPkgs[fn.Pkg.Pkg.Path()]) || fn.Synthetic != "")
	if canInline {
		for p := fr; p != nil; p = p.parent {
			if p.fn == fn {
				canInline = false
				e.noteAssumption("recursive call of " + key + " treated as external")
			}
		}
		if fr.depth >= maxInlineDepth {
			canInline = false
			e.toolError("inline depth exceeded at %s", key)
		}
	}
	if !canInline {
		// methods of external packages with a pointer receiver dereference it: a nil receiver panics
		if sig := fn.Signature; sig.Recv() != nil && len(args) > 0 {
			if _, isPtr := under(sig.Recv().Type()).(*types.Pointer); isPtr {
				if p, ok := args[0].(PtrV); ok && p.Nil != nil && p.Nil.IsVar() && e.maybeNilRet[p.Nil.VarName()] {
					e.oblige(st, fr, "safe.nil", ins, Not(p.Nil), "method of an external type called on a possibly nil pointer receiver ("+key+")")
					st.assume(Not(p.Nil))
				}
			}
		}
		e.noteAssumption("external call " + key + ": result unconstrained, no effect on modelled memory")
		res := e.freshResults(st, fn.Signature)
		e.propagateTaint(st, args, res)
		// (value, error) results of external constructors: the value may be nil when the error is
		// not — remembered so that a later method call on it gets a nil-receiver obligation
		if n := fn.Signature.Results().Len(); n >= 2 && isErrorType(fn.Signature.Results().At(n-1).Type()) {
			for _, r := range res[:n-1] {
				if p, ok := r.(PtrV); ok && p.Nil != nil && p.Nil.IsVar() {
					if e.maybeNilRet == nil {
						e.maybeNilRet = map[string]bool{}
					}
					e.maybeNilRet[p.Nil.VarName()] = true
				}
			}
		}
		return []Outcome{{st: st, results: res}}
	}
	cf := &Frame{fn: fn, env: map[ssa.Value]Value{}, con: con, depth: fr.depth + 1, parent: fr, visits: map[int]int{}}
	cf.callPath = fr.callPath + "@" + key
	if len(cf.callPath) > 120 {
		cf.callPath = cf.callPath[:120]
	}
	savedVars := st.vars
	st.vars = map[string]Value{}
	nPC := len(st.pc)
	base := st
	_ = base
	outs := e.runFunc(cf, st, args, bound)
	// restore caller's debug variables, drop callee loop marks
	lo, hi := cf.depth*100000, (cf.depth+1)*100000
	for i := range outs {
		outs[i].st.vars = copyVars(savedVars)
		for k := range outs[i].st.inLoop {
			if k >= lo && k < hi {
				delete(outs[i].st.inLoop, k)
			}
		}
	}
	return e.mergeOutcomes(outs, nPC, st)
}

func copyVars(m map[string]Value) map[string]Value {
	n := make(map[string]Value, len(m))
	for k, v := range m {
		n[k] = v
	}
	return n
}

func (c *Contract) Inline() bool { return c != nil && c.Inl }

// mergeOutcomes joins outcomes of an inlined call whose states differ only in
// mergeable ways. nPC is the length of the common path-condition prefix.
func (e *Engine) mergeOutcomes(outs []Outcome, nPC int, orig *State) []Outcome {
	if len(outs) <= 1 {
		return outs
	}
	var res []Outcome
	for _, o := range outs {
		merged := false
		for i := range res {
			if m, ok := e.tryMerge(res[i], o, nPC); ok {
				res[i] = m
				merged = true
				break
			}
		}
		if !merged {
			res = append(res, o)
		}
	}
	return res
}

func (e *Engine) tryMerge(a, b Outcome, nPC int) (Outcome, bool) {
	if len(a.results) != len(b.results) || len(a.st.pc) < nPC || len(b.st.pc) < nPC {
		return a, false
	}
	for i := 0; i < nPC; i++ {
		if a.st.pc[i] != b.st.pc[i] {
			return a, false
		}
	}
	da := And(a.st.pc[nPC:]...)
	db := And(b.st.pc[nPC:]...)
	cond := da // selector: a's delta
	// results
	res := make([]Value, len(a.results))
	for i := range res {
		// an outcome that returns data (a slice over some object) is not merged with one that
		// returns a nil slice: the success path of a helper such as ([]byte, []byte, error) stays a
		// path of its own, with its facts unconditional, instead of living under an if-then-else
		if sa, ok := a.results[i].(SliceV); ok {
			if sb, ok := b.results[i].(SliceV); ok && sa.Obj != sb.Obj {
				return a, false
			}
		}
		m, ok := e.mergeValues(cond, a.results[i], b.results[i])
		if !ok {
			return a, false
		}
		res[i] = m
	}
	ns := &State{heap: map[*Obj]Value{}, ghost: map[string]Value{}, inLoop: map[int]bool{}, vars: map[string]Value{}}
	keys := map[*Obj]bool{}
	for o := range a.st.heap {
		keys[o] = true
	}
	for o := range b.st.heap {
		keys[o] = true
	}
	for o := range keys {
		va, oka := a.st.heap[o]
		vb, okb := b.st.heap[o]
		if !oka {
			va, oka = e.initHeap[o]
		}
		if !okb {
			vb, okb = e.initHeap[o]
		}
		if !oka || !okb {
			// object allocated on one side only: keep it (unreachable from the other side)
			if oka {
				ns.heap[o] = va
			} else {
				ns.heap[o] = vb
			}
			continue
		}
		if sameValue(va, vb) {
			ns.heap[o] = va
			continue
		}
		m, ok := e.mergeValues(cond, va, vb)
		if !ok {
			return a, false
		}
		ns.heap[o] = m
	}
	gk := map[string]bool{}
	for k := range a.st.ghost {
		gk[k] = true
	}
	for k := range b.st.ghost {
		gk[k] = true
	}
	for k := range gk {
		va, oka := a.st.ghost[k]
		vb, okb := b.st.ghost[k]
		if !oka {
			va = e.initGhostVal(k)
			if strings.HasPrefix(k, "alloc.") {
				va = Num(0) // no allocation on that path yet (what alloc() reads for an absent entry)
			}
		}
		if !okb {
			vb = e.initGhostVal(k)
			if strings.HasPrefix(k, "alloc.") {
				vb = Num(0)
			}
		}
		if sameValue(va, vb) {
			ns.ghost[k] = va
			continue
		}
		m, ok := e.mergeValues(cond, va, vb)
		if !ok {
			return a, false
		}
		ns.ghost[k] = m
	}
	if len(a.st.events) != len(b.st.events) {
		return a, false
	}
	for i := range a.st.events {
		if a.st.events[i] != b.st.events[i] {
			return a, false
		}
	}
	ns.events = a.st.events
	for k, v := range a.st.inLoop {
		if b.st.inLoop[k] == v {
			ns.inLoop[k] = v
		} else {
			return a, false
		}
	}
	if len(a.st.inLoop) != len(b.st.inLoop) {
		return a, false
	}
	for o, b := range a.st.taint {
		ns.taintSet(o, b)
	}
	for o, b := range b.st.taint {
		ns.taintSet(o, b)
	}
	for o, ks := range a.st.taintKey {
		for k := range ks {
			ns.taintKeysAdd(o, k)
		}
	}
	for o, ks := range b.st.taintKey {
		for k := range ks {
			ns.taintKeysAdd(o, k)
		}
	}
	for k := range a.st.closedCh {
		if ns.closedCh == nil {
			ns.closedCh = map[string]bool{}
		}
		ns.closedCh[k] = true
	}
	for k := range b.st.closedCh {
		if ns.closedCh == nil {
			ns.closedCh = map[string]bool{}
		}
		ns.closedCh[k] = true
	}
	for k, bts := range a.st.taintRef {
		if ns.taintRef == nil {
			ns.taintRef = map[string]uint8{}
		}
		ns.taintRef[k] |= bts
	}
	for k, bts := range b.st.taintRef {
		if ns.taintRef == nil {
			ns.taintRef = map[string]uint8{}
		}
		ns.taintRef[k] |= bts
	}
	for o, ex := range a.st.sliceExcl {
		if bx, ok := b.st.sliceExcl[o]; ok {
			both := map[string]bool{}
			for k := range ex {
				if bx[k] {
					both[k] = true
				}
			}
			if ns.sliceExcl == nil {
				ns.sliceExcl = map[*Obj]map[string]bool{}
			}
			ns.sliceExcl[o] = both
		}
	}
	ns.pc = append(append([]*Term(nil), a.st.pc[:nPC]...), Or(da, db))
	// both deltas imply their side of the merged values: (da -> merged==a) holds by
	// construction of ite(da, a, b) only if da and db are mutually exclusive or the
	// values coincide; they are exclusive because they are distinct paths of a
	// deterministic program split on complementary branch conditions. For
	// nondeterministic splits (fresh select index) the selector is part of the delta.
	ns.vars = a.st.vars
	return Outcome{st: ns, results: res}, true
}

func (e *Engine) initGhostVal(k string) Value {
	if g, ok := e.initGhost[k]; ok {
		return g
	}
	v := e.freshGhost(&State{}, k)
	e.initGhost[k] = v
	return v
}

func sameValue(a, b Value) bool {
	switch x := a.(type) {
	case *Term:
		y, ok := b.(*Term)
		return ok && x == y
	case StrV:
		y, ok := b.(StrV)
		return ok && sameValue(x.Arr, y.Arr) && sameValue(x.Off, y.Off) && sameValue(x.Len, y.Len)
	case SliceV:
		y, ok := b.(SliceV)
		return ok && x.Obj == y.Obj && sameValue(x.Off, y.Off) && sameValue(x.Len, y.Len) && sameValue(x.Cap, y.Cap) && sameValue(x.Nil, y.Nil)
	case PtrV:
		y, ok := b.(PtrV)
		if !ok || x.Obj != y.Obj || len(x.Path) != len(y.Path) || !sameValue(x.Nil, y.Nil) {
			return false
		}
		for i := range x.Path {
			switch p := x.Path[i].(type) {
			case int:
				if q, ok := y.Path[i].(int); !ok || p != q {
					return false
				}
			case *Term:
				if q, ok := y.Path[i].(*Term); !ok || !sameValue(p, q) {
					return false
				}
			}
		}
		return true
	case StructV:
		y, ok := b.(StructV)
		if !ok || len(x.F) != len(y.F) {
			return false
		}
		for i := range x.F {
			if !sameValue(x.F[i], y.F[i]) {
				return false
			}
		}
		return true
	case ArrV:
		y, ok := b.(ArrV)
		if !ok {
			return false
		}
		if x.Base != nil || y.Base != nil {
			return x.Base != nil && y.Base != nil && sameValue(x.Base, y.Base)
		}
		if len(x.Conc) != len(y.Conc) {
			return false
		}
		for k, v := range x.Conc {
			w, ok := y.Conc[k]
			if !ok {
				return false
			}
			if k == -1 {
				continue
			}
			if !sameValue(v, w) {
				return false
			}
		}
		return true
	case IfaceV:
		y, ok := b.(IfaceV)
		if !ok {
			return false
		}
		if x.Sym != nil || y.Sym != nil {
			return x.Sym != nil && y.Sym != nil && (x.Sym == y.Sym || x.Sym.ID == y.Sym.ID)
		}
		if x.Dyn == nil || y.Dyn == nil {
			return x.Dyn == nil && y.Dyn == nil
		}
		return types.Identical(x.Dyn, y.Dyn) && sameValue(x.V, y.V)
	case OpaqueV:
		y, ok := b.(OpaqueV)
		return ok && sameValue(x.Ref, y.Ref)
	case MapV:
		y, ok := b.(MapV)
		return ok && x.Obj == y.Obj && sameValue(x.Nil, y.Nil)
	case FuncV:
		y, ok := b.(FuncV)
		if !ok || x.Fn != y.Fn || len(x.Bound) != len(y.Bound) {
			return false
		}
		if x.Fn == nil {
			if x.Sym == nil || y.Sym == nil {
				return x.Sym == nil && y.Sym == nil
			}
			return sameValue(x.Sym, y.Sym)
		}
		for i := range x.Bound {
			if !sameValue(x.Bound[i], y.Bound[i]) {
				return false
			}
		}
		return true
	case TupleV:
		y, ok := b.(TupleV)
		if !ok || len(x) != len(y) {
			return false
		}
		for i := range x {
			if !sameValue(x[i], y[i]) {
				return false
			}
		}
		return true
	case nil:
		return b == nil
	case MapC:
		y, ok := b.(MapC)
		if !ok || x.Dom != y.Dom || x.Card != y.Card || x.RestID != y.RestID || len(x.Assoc) != len(y.Assoc) {
			return false
		}
		for i := range x.Assoc {
			if x.Assoc[i].Key != y.Assoc[i].Key || !sameValue(x.Assoc[i].Val, y.Assoc[i].Val) {
				return false
			}
		}
		return true
	case bool:
		y, ok := b.(bool)
		return ok && x == y
	}
	return false
}

// ---------- contracts at call sites ----------

func (e *Engine) ctxFor(st, old *State, con *Contract, fnKey string) *EvalCtx {
	c := &EvalCtx{e: e, st: st, old: old, bind: map[string]Value{}, fnKey: fnKey}
	c.pkg = e.pkgOfKey(fnKey)
	return c
}

func (e *Engine) pkgOfKey(key string) *types.Package {
	// key = "<shortpkg>.<...>"; find the longest package prefix
	best := ""
	var bp *types.Package
	for path, sp := range e.ssaPkgs {
		sh := shortPkg(path)
		if strings.HasPrefix(key, sh+".") && len(sh) > len(best) {
			best = sh
			bp = sp.Pkg
		}
	}
	return bp
}

func (e *Engine) bindParams(ctx *EvalCtx, con *Contract, args []Value) {
	for n, i := range con.Alias {
		if i < len(args) {
			ctx.bind[n] = args[i]
		}
	}
	for i, name := range con.Params {
		if i < len(args) && name != "_" && name != "" {
			ctx.bind[name] = args[i]
		}
	}
}

func (e *Engine) checkPre(fr *Frame, st *State, con *Contract, fn *ssa.Function, args []Value, ins ssa.Instruction, ctx *EvalCtx) {
	if ctx == nil {
		ctx = e.ctxFor(st, nil, con, con.Key)
		ctx.noVars = true
		e.bindParams(ctx, con, args)
	}
	ord := e.ordinal(fr.fn, ins, "")
	for _, cl := range con.Cases[0].Requires {
		if !hasTag(cl.Tags, e.curTags) {
			// a requirement stated for another property: neither checked nor assumed here
			continue
		}
		g, note := ctx.goal(cl.E)
		name := fmt.Sprintf("%s/pre@%s%s#%d.%d", e.curFn, con.Key, fr.callPath, ord, cl.Ord)
		e.addObl(st, name, "pre", cl.Tags, g, "precondition of "+con.Key+": "+cl.Text+note, e.posStr(ins.Pos()))
		st.assume(g)
	}
}

func (e *Engine) applyContract(fr *Frame, st *State, con *Contract, sig *types.Signature, args []Value, ins ssa.Instruction) []Outcome {
	ctx := e.ctxFor(st, nil, con, con.Key)
	ctx.noVars = true
	for name, v := range e.pendingFree {
		// captured variables of a closure: by reference (pointer to the variable) or by value
		if p, ok := v.(PtrV); ok && p.Obj != nil {
			ctx.bind[name] = e.loadPtr(st, p)
		} else {
			ctx.bind[name] = v
		}
	}
	e.bindParams(ctx, con, args)
	e.checkPre(fr, st, con, nil, args, ins, ctx)
	old := st.clone()
	ctx.old = old
	// ghost variables the callee sets on entry: set first, so that one that the callee goes on to
	// change (it is in the modifies clause, its final value is what the ensures clauses say) is
	// havocked below, and one that it does not change keeps the entry value
	for g, val := range con.GhostSet {
		st.ghost[g] = Num(val)
	}
	// havoc the frame
	e.symMode++
	defer func() { e.symMode-- }()
	for _, m := range con.Modifies {
		l, ok := ctx.loc(m)
		if !ok {
			e.toolError("cannot resolve modifies target %s of %s", exprStr(m), con.Key)
			continue
		}
		ctx.havoc(l, "mod_"+sanitize(exprStr(m)))
	}
	for _, g := range append(append([]string{}, con.GhostInc...), con.GhostIncSite...) {
		cur, ok := st.ghost[g].(*Term)
		if !ok {
			cur, _ = e.ghostInit(st, g).(*Term)
		}
		st.ghost[g] = Add(cur, Num(1))
	}
	res := e.freshResults(st, sig)
	// default taint flow of a contract that does not state one: results and modified
	// locations carry the labels of the arguments
	var tb uint8
	if !con.TaintAware {
		for _, a := range args {
			tb |= e.taintBits(st, a, 0)
		}
		tb &^= 128
	}
	for i, name := range con.Results {
		if i < len(res) {
			ctx.bind[name] = res[i]
		}
	}
	// result values may be replaced by strong updates (slice geometry)
	mkSetVar := func(cx *EvalCtx, rs []Value) func(string, Value) bool {
		return func(name string, v Value) bool {
			for i, rn := range con.Results {
				if rn == name && i < len(rs) && v != nil {
					rs[i] = v
					cx.bind[name] = v
					return true
				}
			}
			return false
		}
	}
	ctx.setVar = mkSetVar(ctx, res)
	var pend []pendingFork
	ctx.pend = &pend
	// phase 1: strong updates first — clauses that rebuild a map from its old value, slice /
	// pointer geometry equalities (unconditional now, conditional ones are collected for
	// forking); every other clause is assumed afterwards, in each resulting state, so that
	// no clause is ever evaluated on a placeholder that a later clause replaces
	var first, strong, later []Expr
	var split func(x Expr)
	split = func(x Expr) {
		if b, ok := x.(*EBinary); ok && b.Op == "&&" {
			split(b.X)
			split(b.Y)
			return
		}
		if cl, ok := x.(*ECall); ok && cl.Fun == "sameExcept" {
			first = append(first, x)
			return
		}
		if b, ok := x.(*EBinary); ok {
			if b.Op == "==" && ctx.needsStrong(x) {
				strong = append(strong, x)
				return
			}
			if b.Op == "==>" && ctx.needsStrong(b.Y) {
				// split the consequent: strong conjuncts fork, the rest waits
				var sq, rq []Expr
				var sp func(y Expr)
				sp = func(y Expr) {
					if bb, ok := y.(*EBinary); ok && bb.Op == "&&" {
						sp(bb.X)
						sp(bb.Y)
						return
					}
					if ctx.needsStrong(y) {
						sq = append(sq, y)
					} else {
						rq = append(rq, y)
					}
				}
				sp(b.Y)
				for _, y := range sq {
					strong = append(strong, &EBinary{"==>", b.X, y})
				}
				for _, y := range rq {
					later = append(later, &EBinary{"==>", b.X, y})
				}
				return
			}
		}
		later = append(later, x)
	}
	for _, cl := range con.Cases[0].Ensures {
		split(cl.E)
	}
	for _, x := range append(first, strong...) {
		ctx.assume(x)
	}
	outs := []Outcome{{st: st, results: res}}
	// group conditional strong updates by antecedent: one fork per distinct condition
	{
		var grouped []pendingFork
		idx := map[string]int{}
		for _, pf := range pend {
			k := exprStr(pf.P)
			if i, ok := idx[k]; ok {
				grouped[i].Q = &EBinary{"&&", grouped[i].Q, pf.Q}
				continue
			}
			idx[k] = len(grouped)
			grouped = append(grouped, pf)
		}
		pend = grouped
	}
	for _, pf := range pend {
		var next []Outcome
		for _, o := range outs {
			// branch where the antecedent holds: strong update
			s1 := o.st.clone()
			r1 := append([]Value(nil), o.results...)
			c1 := *ctx
			c1.st = s1
			c1.pend = nil
			c1.bind = make(map[string]Value, len(ctx.bind))
			for k, v := range ctx.bind {
				c1.bind[k] = v
			}
			for i, name := range con.Results {
				if i < len(r1) {
					c1.bind[name] = r1[i]
				}
			}
			c1.setVar = mkSetVar(&c1, r1)
			pt := c1.boolean(pf.P)
			if os.Getenv("TQV_DEBUG") != "" {
				d, ok := e.decided(o.st, pt)
				fmt.Fprintf(os.Stderr, "fork %s on %s: pt=%s decided=%v/%v\n", con.Key, exprStr(pf.P), pt, d, ok)
			}
			if d, ok := e.decided(o.st, pt); ok {
				// the condition is already decided on this path
				if d {
					c0 := c1
					c0.st = o.st
					c0.setVar = mkSetVar(&c0, o.results)
					c0.assume(pf.Q)
				}
				next = append(next, o)
				continue
			}
			s1.assume(pt)
			c1.assume(pf.Q)
			// branch where it does not
			c2 := *ctx
			c2.st = o.st
			c2.pend = nil
			c2.bind = make(map[string]Value, len(ctx.bind))
			for k, v := range ctx.bind {
				c2.bind[k] = v
			}
			for i, name := range con.Results {
				if i < len(o.results) {
					c2.bind[name] = o.results[i]
				}
			}
			o.st.assume(Not(c2.boolean(pf.P)))
			next = append(next, o, Outcome{st: s1, results: r1})
		}
		outs = next
	}
	// phase 3: the remaining clauses, in every resulting state
	for _, o := range outs {
		cx := *ctx
		cx.st = o.st
		cx.pend = nil
		cx.bind = make(map[string]Value, len(ctx.bind))
		for k, v := range ctx.bind {
			cx.bind[k] = v
		}
		for i, name := range con.Results {
			if i < len(o.results) {
				cx.bind[name] = o.results[i]
			}
		}
		cx.setVar = mkSetVar(&cx, o.results)
		for _, x := range later {
			cx.assume(x)
		}
	}
	if con.Kind == "trusted func" || con.Kind == "interface" {
		e.noteAssumption("assumed contract of " + con.Key + " (" + con.Kind + ")")
	}
	// vacuity guard: the assumed post-condition must be consistent with the path
	for _, o := range outs {
		e.addObl(o.st, fmt.Sprintf("%s/cover.call@%s#0", e.curFn, con.Key), "cover", nil, TFalse, "COVER: state after assuming the contract of "+con.Key+" is satisfiable", "")
	}
	var live []Outcome
	for _, o := range outs {
		if !o.st.dead {
			if tb != 0 {
				for i := range o.results {
					o.results[i] = e.taintValue(o.st, o.results[i], tb)
				}
				cx := *ctx
				cx.st = o.st
				cx.pend = nil
				cx.setVar = nil
				for _, m := range con.Modifies {
					if l, ok := cx.loc(m); ok && l.Ghost == "" {
						cx.taintExpr(m, tb)
					}
				}
			}
			live = append(live, o)
		}
	}
	return live
}

// ---------- defers ----------

func (e *Engine) runDefers(fr *Frame, st *State) []*State {
	states := []*State{st}
	for len(fr.defers) > 0 {
		d := fr.defers[len(fr.defers)-1]
		fr.defers = fr.defers[:len(fr.defers)-1]
		var next []*State
		for _, s := range states {
			var outs []Outcome
			if d.call.IsInvoke() {
				outs = e.invoke(fr, s, d.fnv.(IfaceV), d.call.Method, d.args, d.ins, d.call.Value.Type())
			} else if f, ok := d.fnv.(FuncV); ok {
				outs = e.callFuncV(fr, s, f, d.args, d.ins, d.call.Signature())
			}
			for _, o := range outs {
				next = append(next, o.st)
			}
		}
		states = next
	}
	return states
}

// ---------- builtins ----------

func (e *Engine) builtin(fr *Frame, st *State, b *ssa.Builtin, args []Value, ins ssa.Instruction) []Value {
	switch b.Name() {
	case "len":
		switch x := args[0].(type) {
		case StrV:
			return []Value{x.Len}
		case SliceV:
			return []Value{x.Len}
		case MapV:
			if x.Obj == nil {
				return []Value{Num(0)}
			}
			return []Value{e.mapContent(st, x).Card}
		case PtrV:
			if at, ok := under(x.Elem).(*types.Array); ok {
				return []Value{Num(at.Len())}
			}
		case ArrV:
		}
		v := e.freshVar("len", SInt)
		st.assume(Le(Num(0), v))
		return []Value{v}
	case "cap":
		if x, ok := args[0].(SliceV); ok {
			return []Value{x.Cap}
		}
		v := e.freshVar("cap", SInt)
		st.assume(Le(Num(0), v))
		return []Value{v}
	case "append":
		return []Value{e.appendOp(fr, st, args[0].(SliceV), args[1], ins)}
	case "copy":
		dst := args[0].(SliceV)
		var sa, so, sl *Term
		switch s := args[1].(type) {
		case SliceV:
			if s.Obj == nil {
				return []Value{Num(0)}
			}
			sa, so, sl = e.heapGet(st, s.Obj).(ArrV).Base, s.Off, s.Len
		case StrV:
			sa, so, sl = s.Arr, s.Off, s.Len
		}
		n := Min(dst.Len, sl)
		if dst.Obj != nil && sa != nil {
			da := e.heapGet(st, dst.Obj).(ArrV)
			if da.Base != nil {
				st.heap[dst.Obj] = ArrV{Elem: da.Elem, Base: App(spliceFn(da.Base.Sort), da.Base.Sort, da.Base, dst.Off, sa, so, n)}
				return []Value{n}
			}
		}
		e.toolError("copy on unmodelled slices")
		return []Value{n}
	case "delete":
		if m, ok := args[0].(MapV); ok {
			e.mapDelete(st, m, args[1])
		}
		return nil
	case "print", "println":
		return nil
	case "recover":
		return []Value{IfaceV{}}
	case "min", "max":
		r := args[0].(*Term)
		for _, a := range args[1:] {
			t := a.(*Term)
			if b.Name() == "min" {
				r = Min(r, t)
			} else {
				r = Ite(Le(r, t), t, r)
			}
		}
		return []Value{r}
	case "close":
		e.event(st, "close")
		if len(args) == 1 {
			if ch, ok := args[0].(OpaqueV); ok && ch.Ref != nil {
				k := ch.Ref.String()
				// closing a channel twice panics; channels this function did not close itself are
				// assumed open (their state is the caller's)
				e.oblige(st, fr, "safe.close", ins, Bool(!st.closedCh[k]), "close of a channel already closed on this path")
				if st.closedCh == nil {
					st.closedCh = map[string]bool{}
				}
				st.closedCh[k] = true
			}
		}
		return nil
	}
	e.toolError("builtin %s not modelled", b.Name())
	return nil
}

func (e *Engine) appendOp(fr *Frame, st *State, s SliceV, src Value, ins ssa.Instruction) Value {
	var srcArr ArrV
	var so, sl *Term
	var srcStr *StrV
	switch x := src.(type) {
	case SliceV:
		if x.Obj == nil {
			return s
		}
		srcArr = e.heapGet(st, x.Obj).(ArrV)
		so, sl = x.Off, x.Len
	case StrV:
		srcStr = &x
		so, sl = x.Off, x.Len
	default:
		e.toolError("append of %T", src)
		return s
	}
	if n, ok := sl.Int64(); ok && n == 0 {
		return s
	}
	elem := s.Elem
	o := e.newObj("append", elem, true)
	o.Fresh = true
	// append is modelled functionally (a new backing array), but a freshness CLAIM about its
	// result is only justified when growth in place is impossible or harmless: the operand has
	// no backing array, or that array was itself allocated in this function
	switch {
	case s.Obj != nil && s.Obj.MayAlias != nil:
		o.MayAlias = s.Obj.MayAlias
	case s.Obj != nil && !s.Obj.Fresh:
		o.MayAlias = s.Obj
	}
	var dst ArrV
	if s.Obj != nil {
		dst = e.heapGet(st, s.Obj).(ArrV)
	} else {
		dst = e.zeroArr(elem).markZero()
	}
	start := Add(s.Off, s.Len)
	var out ArrV
	switch {
	case dst.Base != nil:
		var sbase *Term
		if srcStr != nil {
			sbase = srcStr.Arr
		} else {
			sbase = srcArr.Base
		}
		if sbase == nil {
			e.toolError("append: source array not modelled")
			return s
		}
		if n, ok := sl.Int64(); ok && n <= 8 {
			base := dst.Base
			for i := int64(0); i < n; i++ {
				base = Store(base, Add(start, Num(i)), Select(sbase, Add(so, Num(i))))
			}
			out = ArrV{Elem: elem, Base: base}
		} else {
			out = ArrV{Elem: elem, Base: App(spliceFn(dst.Base.Sort), dst.Base.Sort, dst.Base, start, sbase, so, sl)}
		}
	default:
		// executor-level arrays: concrete geometry only
		dOff, ok1 := s.Off.Int64()
		dLen, ok2 := s.Len.Int64()
		sOff, ok3 := so.Int64()
		sLen, ok4 := sl.Int64()
		if !(ok1 && ok2 && ok3 && ok4) {
			e.toolError("append on slice of %s with symbolic geometry (not modelled)", typeStr(elem))
			ns := e.freshSlice(st, elem, "append")
			ns.Nil = TFalse
			return ns
		}
		out = ArrV{Elem: elem, Conc: map[int64]Value{}}
		for k, v := range dst.Conc {
			out.Conc[k] = v
		}
		for i := int64(0); i < sLen; i++ {
			out.Conc[dOff+dLen+i] = srcArr.get(e, st, Num(sOff+i))
		}
	}
	st.heap[o] = out
	nl := Add(s.Len, sl)
	cp := e.freshVar("appcap", SInt)
	st.assume(Le(nl, cp))
	st.assume(Le(cp, NumB(maxLen)))
	st.assume(Implies(Le(nl, s.Cap), Eq(cp, s.Cap)))
	cp.Hi = maxLen
	e.noteAssumption("append is modelled functionally (result has a fresh backing array); in-place growth is not visible through other aliases of the operand")
	return SliceV{Obj: o, Off: s.Off, Len: nl, Cap: cp, Nil: TFalse, Elem: elem}
}

func isErrorType(t types.Type) bool {
	n, ok := t.(*types.Named)
	return ok && n.Obj().Pkg() == nil && n.Obj().Name() == "error"
}
