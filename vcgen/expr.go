package main

// Parser for the contract expression language (Go expression syntax plus
// ==>, <==>, forall/exists x T :: e, old(e), c ? a : b, let x = e in e).

import (
	"fmt"
	"strings"
	"unicode"
)

type Expr interface{}

type (
	EIdent struct{ Name string }
	ENum   struct{ V string }
	EStr   struct{ V string }
	EBool  struct{ V bool }
	EUnary struct {
		Op string
		X  Expr
	}
	EBinary struct {
		Op   string
		X, Y Expr
	}
	ECall struct {
		Fun  string
		Args []Expr
	}
	EIndex struct{ X, I Expr }
	ESlice struct{ X, Lo, Hi Expr }
	EField struct {
		X    Expr
		Name string
	}
	EQuant struct {
		Kind  string
		Vars  []string
		Types []string
		Body  Expr
		Pats  [][]Expr
	}
	ECond struct{ C, A, B Expr }
	ELet  struct {
		Name string
		Val  Expr
		Body Expr
	}
	EAll struct{ X Expr } // x[..]
)

type tok struct {
	kind string // id num str op eof
	text string
}

func lex(s string) ([]tok, error) {
	var out []tok
	i := 0
	for i < len(s) {
		c := s[i]
		switch {
		case c == ' ' || c == '\t' || c == '\n':
			i++
		case unicode.IsLetter(rune(c)) || c == '_':
			j := i
			for j < len(s) && (unicode.IsLetter(rune(s[j])) || unicode.IsDigit(rune(s[j])) || s[j] == '_' || s[j] == '$') {
				j++
			}
			out = append(out, tok{"id", s[i:j]})
			i = j
		case unicode.IsDigit(rune(c)):
			j := i
			for j < len(s) && (unicode.IsDigit(rune(s[j])) || s[j] == 'x' || (s[j] >= 'a' && s[j] <= 'f') || (s[j] >= 'A' && s[j] <= 'F')) {
				j++
			}
			out = append(out, tok{"num", s[i:j]})
			i = j
		case c == '"':
			j := i + 1
			for j < len(s) && s[j] != '"' {
				if s[j] == '\\' {
					j++
				}
				j++
			}
			if j >= len(s) {
				return nil, fmt.Errorf("unterminated string")
			}
			out = append(out, tok{"str", s[i+1 : j]})
			i = j + 1
		default:
			ops := []string{"<==>", "==>", "::", "..", "&&", "||", "==", "!=", "<=", ">=", "<<", ">>", "&^",
				"+", "-", "*", "/", "%", "<", ">", "!", "(", ")", "[", "]", ".", ",", ":", "?", "&", "|", "^", "=", "{", "}"}
			found := false
			for _, op := range ops {
				if strings.HasPrefix(s[i:], op) {
					out = append(out, tok{"op", op})
					i += len(op)
					found = true
					break
				}
			}
			if !found {
				return nil, fmt.Errorf("unexpected character %q", c)
			}
		}
	}
	out = append(out, tok{"eof", ""})
	return out, nil
}

type parser struct {
	toks []tok
	pos  int
}

func (p *parser) peek() tok { return p.toks[p.pos] }
func (p *parser) next() tok { t := p.toks[p.pos]; p.pos++; return t }
func (p *parser) isOp(s string) bool {
	t := p.peek()
	return t.kind == "op" && t.text == s
}
func (p *parser) isID(s string) bool {
	t := p.peek()
	return t.kind == "id" && t.text == s
}
func (p *parser) expectOp(s string) error {
	if !p.isOp(s) {
		return fmt.Errorf("expected %q, found %q", s, p.peek().text)
	}
	p.pos++
	return nil
}

func parseExpr(s string) (Expr, error) {
	toks, err := lex(s)
	if err != nil {
		return nil, err
	}
	p := &parser{toks: toks}
	e, err := p.parseTop()
	if err != nil {
		return nil, err
	}
	if p.peek().kind != "eof" {
		return nil, fmt.Errorf("trailing input at %q", p.peek().text)
	}
	return e, nil
}

// precedence (low→high): <==>  ==>  ?:  ||  &&  cmp  + - | ^  * / % << >> & &^  unary  postfix
func (p *parser) parseTop() (Expr, error) {
	if p.isID("forall") || p.isID("exists") {
		kind := p.next().text
		q := &EQuant{Kind: kind}
		for {
			if p.peek().kind != "id" {
				return nil, fmt.Errorf("quantifier: expected variable")
			}
			q.Vars = append(q.Vars, p.next().text)
			typ := "int"
			if p.peek().kind == "id" {
				typ = p.next().text
			}
			q.Types = append(q.Types, typ)
			if p.isOp(",") {
				p.next()
				continue
			}
			break
		}
		if err := p.expectOp("::"); err != nil {
			return nil, err
		}
		for p.isOp("{") {
			p.next()
			var pat []Expr
			for !p.isOp("}") {
				pe, err := p.parseCond()
				if err != nil {
					return nil, err
				}
				pat = append(pat, pe)
				if p.isOp(",") {
					p.next()
				}
			}
			p.next()
			q.Pats = append(q.Pats, pat)
		}
		b, err := p.parseTop()
		if err != nil {
			return nil, err
		}
		q.Body = b
		return q, nil
	}
	if p.isID("let") {
		p.next()
		name := p.next().text
		if err := p.expectOp("="); err != nil {
			return nil, err
		}
		v, err := p.parseIff()
		if err != nil {
			return nil, err
		}
		if !p.isID("in") {
			return nil, fmt.Errorf("let: expected 'in'")
		}
		p.next()
		b, err := p.parseTop()
		if err != nil {
			return nil, err
		}
		return &ELet{name, v, b}, nil
	}
	return p.parseIff()
}

func (p *parser) parseIff() (Expr, error) {
	x, err := p.parseImp()
	if err != nil {
		return nil, err
	}
	for p.isOp("<==>") {
		p.next()
		y, err := p.parseImp()
		if err != nil {
			return nil, err
		}
		x = &EBinary{"<==>", x, y}
	}
	return x, nil
}

func (p *parser) parseImp() (Expr, error) {
	x, err := p.parseCond()
	if err != nil {
		return nil, err
	}
	if p.isOp("==>") {
		p.next()
		var y Expr
		if p.isID("forall") || p.isID("exists") || p.isID("let") {
			y, err = p.parseTop()
		} else {
			y, err = p.parseImp()
		}
		if err != nil {
			return nil, err
		}
		return &EBinary{"==>", x, y}, nil
	}
	return x, nil
}

func (p *parser) parseCond() (Expr, error) {
	c, err := p.parseBin(0)
	if err != nil {
		return nil, err
	}
	if p.isOp("?") {
		p.next()
		a, err := p.parseCond()
		if err != nil {
			return nil, err
		}
		if err := p.expectOp(":"); err != nil {
			return nil, err
		}
		b, err := p.parseCond()
		if err != nil {
			return nil, err
		}
		return &ECond{c, a, b}, nil
	}
	return c, nil
}

var binPrec = []map[string]bool{
	{"||": true},
	{"&&": true},
	{"==": true, "!=": true, "<": true, "<=": true, ">": true, ">=": true},
	{"+": true, "-": true, "|": true, "^": true},
	{"*": true, "/": true, "%": true, "<<": true, ">>": true, "&": true, "&^": true},
}

func (p *parser) parseBin(level int) (Expr, error) {
	if level >= len(binPrec) {
		return p.parseUnary()
	}
	x, err := p.parseBin(level + 1)
	if err != nil {
		return nil, err
	}
	for {
		t := p.peek()
		if t.kind == "op" && binPrec[level][t.text] {
			p.next()
			var y Expr
			if (level <= 1) && (p.isID("forall") || p.isID("exists")) {
				y, err = p.parseTop()
			} else {
				y, err = p.parseBin(level + 1)
			}
			if err != nil {
				return nil, err
			}
			x = &EBinary{t.text, x, y}
			continue
		}
		// "div"/"mod" keywords
		if t.kind == "id" && (t.text == "div" || t.text == "mod") && level == 4 {
			p.next()
			y, err := p.parseBin(level + 1)
			if err != nil {
				return nil, err
			}
			x = &EBinary{t.text, x, y}
			continue
		}
		return x, nil
	}
}

func (p *parser) parseUnary() (Expr, error) {
	t := p.peek()
	if t.kind == "op" && (t.text == "!" || t.text == "-" || t.text == "*" || t.text == "&") {
		p.next()
		x, err := p.parseUnary()
		if err != nil {
			return nil, err
		}
		return &EUnary{t.text, x}, nil
	}
	return p.parsePostfix()
}

func dotted(e Expr) (string, bool) {
	switch x := e.(type) {
	case *EIdent:
		return x.Name, true
	case *EField:
		if s, ok := dotted(x.X); ok {
			return s + "." + x.Name, true
		}
	}
	return "", false
}

func (p *parser) parsePostfix() (Expr, error) {
	x, err := p.parsePrimary()
	if err != nil {
		return nil, err
	}
	for {
		switch {
		case p.isOp("."):
			p.next()
			if p.isOp("(") { // type assertion x.(T)
				p.next()
				te, err := p.parseUnary()
				if err != nil {
					return nil, err
				}
				if err := p.expectOp(")"); err != nil {
					return nil, err
				}
				x = &ECall{Fun: "$assert", Args: []Expr{x, te}}
				continue
			}
			if p.peek().kind != "id" {
				return nil, fmt.Errorf("expected field name after '.'")
			}
			x = &EField{x, p.next().text}
		case p.isOp("("):
			name, ok := dotted(x)
			if !ok {
				return nil, fmt.Errorf("call of non-name")
			}
			p.next()
			var args []Expr
			for !p.isOp(")") {
				a, err := p.parseTop()
				if err != nil {
					return nil, err
				}
				args = append(args, a)
				if p.isOp(",") {
					p.next()
				} else {
					break
				}
			}
			if err := p.expectOp(")"); err != nil {
				return nil, err
			}
			x = &ECall{Fun: name, Args: args}
		case p.isOp("["):
			p.next()
			if p.isOp("..") {
				p.next()
				if err := p.expectOp("]"); err != nil {
					return nil, err
				}
				x = &EAll{x}
				continue
			}
			var lo, hi Expr
			if !p.isOp(":") {
				lo, err = p.parseTop()
				if err != nil {
					return nil, err
				}
			}
			if p.isOp(":") {
				p.next()
				if !p.isOp("]") {
					hi, err = p.parseTop()
					if err != nil {
						return nil, err
					}
				}
				if err := p.expectOp("]"); err != nil {
					return nil, err
				}
				x = &ESlice{x, lo, hi}
				continue
			}
			if err := p.expectOp("]"); err != nil {
				return nil, err
			}
			x = &EIndex{x, lo}
		default:
			return x, nil
		}
	}
}

func (p *parser) parsePrimary() (Expr, error) {
	t := p.next()
	switch t.kind {
	case "num":
		return &ENum{t.text}, nil
	case "str":
		return &EStr{t.text}, nil
	case "id":
		switch t.text {
		case "true":
			return &EBool{true}, nil
		case "false":
			return &EBool{false}, nil
		}
		return &EIdent{t.text}, nil
	case "op":
		if t.text == "(" {
			e, err := p.parseTop()
			if err != nil {
				return nil, err
			}
			if err := p.expectOp(")"); err != nil {
				return nil, err
			}
			return e, nil
		}
	}
	return nil, fmt.Errorf("unexpected token %q", t.text)
}
