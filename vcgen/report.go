package main

import (
	"encoding/json"
	"fmt"
	"os"
	"path/filepath"
	"regexp"
	"sort"
	"strings"
	"sync"
	"time"
)

type KnownFinding struct {
	Property   string `json:"property"`
	Obligation string `json:"obligation"`
	Status     string `json:"status"` // open | fixed
	Commit     string `json:"commit,omitempty"`
	What       string `json:"what"`
	Witness    string `json:"witness,omitempty"`
}

type Verdict struct {
	Name      string
	Kind      string // violation | known | undecided | missing | vacuous
	Replay    string
	Confirmed bool
	Detail    string
}

var oblFuncRe = regexp.MustCompile(`^([^/]+)/`)

func funcOfObl(name string) string {
	m := oblFuncRe.FindStringSubmatch(name)
	if m == nil {
		return ""
	}
	return m[1]
}

func loadJSON(path string, v interface{}) bool {
	b, err := os.ReadFile(path)
	if err != nil {
		return false
	}
	return json.Unmarshal(b, v) == nil
}

// clauseOf finds the contract clause an obligation name refers to (post obligations).
func clauseOf(info *EntryInfo, name string) *Clause {
	i := strings.Index(name, "/post#")
	if i < 0 {
		return nil
	}
	var ord int
	fmt.Sscanf(name[i+len("/post#"):], "%d", &ord)
	for _, sc := range info.Con.Cases[:1] {
		for _, cl := range sc.Ensures {
			if cl.Ord == ord {
				return cl
			}
		}
	}
	return nil
}

// investigate searches a failing input for one failed obligation and replays it.
func (e *Engine) investigate(cfg RunConfig, s *Solver, r *OblResult, cands []Candidate) (confirmed bool, replayFile string, detail string) {
	replayFile = filepath.Join(cfg.Work, "replay_"+tailName(r.Name)+".json")
	rec := map[string]interface{}{
		"obligation": r.Name, "kind": r.Kind, "description": r.Desc, "position": r.Pos,
		"solver_status": r.Fail.Status, "solver": r.Fail.Solver, "smt_file": r.Fail.File,
	}
	out := strings.TrimSpace(r.Fail.Output)
	if len(out) > 600 {
		out = out[:600]
	}
	rec["solver_output"] = out
	write := func() {
		b, _ := json.MarshalIndent(rec, "", " ")
		os.WriteFile(replayFile, b, 0o644)
	}
	info := e.entries[funcOfObl(r.Name)]
	if info == nil || strings.Contains(r.Name, "~case") || r.FailObl == nil {
		rec["why"] = "no generic replay adapter for this obligation family"
		if found, violated, wrec := e.runWitness(cfg, r.Name); found {
			rec["witness"] = wrec
			if violated {
				rec["verdict"] = "violation"
				write()
				return true, replayFile, "witness scenario violates the clause on the real code"
			}
		}
		rec["verdict"] = "no-failing-input-found"
		write()
		return false, replayFile, "no adapter"
	}
	var cl *Clause
	if r.Kind == "post" {
		cl = clauseOf(info, r.Name)
	}
	if r.Kind != "post" && !strings.HasPrefix(r.Kind, "safe.") {
		rec["why"] = "obligation kind " + r.Kind + " has no directly observable counterpart"
		if found, violated, wrec := e.runWitness(cfg, r.Name); found {
			rec["witness"] = wrec
			if violated {
				rec["verdict"] = "violation"
				write()
				return true, replayFile, "witness scenario violates the clause on the real code"
			}
		}
		rec["verdict"] = "no-failing-input-found"
		write()
		return false, replayFile, "kind"
	}
	rec["candidates_tried"] = len(cands)
	pkg := info.Fn.Pkg.Pkg
	var tried []Replay
	for i, c := range cands {
		obs, pan, text, err := e.runReplay(cfg.Repo, cfg.Work, info.Fn, info.Names, info.ResNames, c, fmt.Sprintf("%s_%d", sanitize(r.Name), i))
		rp := Replay{Func: funcKey(info.Fn), Inputs: c.Inputs, Observed: obs, Panic: pan}
		if err != nil {
			rp.Verdict = "replay-error"
			rp.Detail = err.Error() + "\n" + tail(text, 800)
			tried = append(tried, rp)
			continue
		}
		switch {
		case strings.HasPrefix(r.Kind, "safe."):
			if pan != "" {
				rp.Verdict = "violation: panic " + pan
				tried = append(tried, rp)
				rec["verdict"] = "violation"
				rec["replays"] = trimReplays(tried)
				write()
				return true, replayFile, "panic: " + pan
			}
			rp.Verdict = "no panic"
		case cl != nil:
			if pan != "" {
				rp.Verdict = "panic " + pan
				tried = append(tried, rp)
				continue
			}
			v, why := e.judge(info.Con, info.Con.Cases[0], cl, info.Names, info.ResNames, c.Inputs, obs, pkg)
			rp.Clause = cl.Text
			rp.Verdict = "clause evaluates to " + v
			rp.Detail = why
			if v == "false" {
				tried = append(tried, rp)
				rec["verdict"] = "violation"
				rec["replays"] = trimReplays(tried)
				write()
				return true, replayFile, "clause false on replayed input"
			}
		}
		tried = append(tried, rp)
	}
	rec["replays"] = trimReplays(tried)
	if found, violated, wrec := e.runWitness(cfg, r.Name); found {
		rec["witness"] = wrec
		if violated {
			rec["verdict"] = "violation"
			write()
			return true, replayFile, "witness scenario violates the clause on the real code"
		}
	}
	rec["verdict"] = "no-failing-input-found"
	write()
	return false, replayFile, "no candidate confirmed"
}

func tail(s string, n int) string {
	if len(s) > n {
		return s[len(s)-n:]
	}
	return s
}

// trimReplays shortens long hex payloads so that replay files stay readable.
func trimReplays(rs []Replay) []Replay {
	var trim func(j JVal) JVal
	trim = func(j JVal) JVal {
		short := func(p *string) *string {
			if p != nil && len(*p) > 160 {
				s := fmt.Sprintf("%s…(%d bytes)", (*p)[:96], len(*p)/2)
				return &s
			}
			return p
		}
		j.S, j.Y = short(j.S), short(j.Y)
		if j.F != nil {
			m := map[string]JVal{}
			for k, v := range j.F {
				m[k] = trim(v)
			}
			j.F = m
		}
		if j.P != nil {
			p := trim(*j.P)
			j.P = &p
		}
		if len(j.L) > 8 {
			j.L = j.L[:8]
		}
		for i := range j.L {
			j.L[i] = trim(j.L[i])
		}
		return j
	}
	out := make([]Replay, len(rs))
	for i, r := range rs {
		out[i] = r
		out[i].Inputs = map[string]JVal{}
		for k, v := range r.Inputs {
			out[i].Inputs[k] = trim(v)
		}
		out[i].Observed = map[string]JVal{}
		for k, v := range r.Observed {
			out[i].Observed[k] = trim(v)
		}
	}
	return out
}

// runProperty is the check entry point: exit code 0/1/2.
func runProperty(cfg RunConfig, evidencePath, knownPath, baselinePath string, updateBaseline bool, seed int64) int {
	t0 := time.Now()
	os.RemoveAll(cfg.Work)
	os.MkdirAll(cfg.Work, 0o755)
	e, rr, err := run(cfg)
	if err != nil {
		fmt.Fprintln(os.Stderr, "tqv:", err)
		return 2
	}
	var known []KnownFinding
	loadJSON(knownPath, &known)
	baseline := map[string][]string{}
	loadJSON(baselinePath, &baseline)
	inBase := map[string]bool{}
	baseFuncs := map[string]bool{}
	for _, n := range baseline[cfg.Prop] {
		inBase[n] = true
		baseFuncs[funcOfObl(n)] = true
	}
	haveBase := len(inBase) > 0
	// A frame obligation is only emitted when the function writes something its modifies clause
	// does not list; on the baseline tree most functions have none, i.e. their frame held
	// trivially. The frame of every function verified on the baseline is therefore part of
	// the baseline whether or not an obligation was emitted for it.
	isBase := func(name string) bool {
		if inBase[name] {
			return true
		}
		return strings.Contains(name, "/frame#") && baseFuncs[funcOfObl(name)]
	}

	generated := map[string]bool{}
	var proved, failed []*OblResult
	var vacuous []string
	covers := 0
	for _, r := range rr.Results {
		generated[r.Name] = true
		if r.Kind == "cover" {
			covers++
			if r.Status == "proved" {
				vacuous = append(vacuous, r.Name)
			}
			continue
		}
		if r.Status == "proved" {
			proved = append(proved, r)
		} else {
			failed = append(failed, r)
		}
	}
	// investigate failures (counterexample search + replay), a few in parallel
	type inv struct {
		r         *OblResult
		confirmed bool
		file      string
		detail    string
	}
	invs := make([]inv, len(failed))
	// candidate generation builds terms (not thread-safe): sequential; replays run in parallel
	candLists := make([][]Candidate, len(failed))
	// scenario witnesses first (cached per scenario file, run in parallel): an obligation whose
	// scenario already fails on the real code needs no solver-driven input search
	witnessHit := make([]bool, len(failed))
	{
		var wg0 sync.WaitGroup
		sem0 := make(chan struct{}, 6)
		for i, r := range failed {
			wg0.Add(1)
			sem0 <- struct{}{}
			go func(i int, r *OblResult) {
				defer wg0.Done()
				defer func() { <-sem0 }()
				if found, violated, _ := e.runWitness(cfg, r.Name); found && violated {
					witnessHit[i] = true
				}
			}(i, r)
		}
		wg0.Wait()
	}
	for i, r := range failed {
		if witnessHit[i] {
			continue
		}
		info := e.entries[funcOfObl(r.Name)]
		if info == nil || r.FailObl == nil || strings.Contains(r.Name, "~case") || !(r.Kind == "post" || strings.HasPrefix(r.Kind, "safe.")) {
			continue
		}
		candLists[i] = e.findCandidates(rr.Solver, info.Fn, info.Args, info.Names, info.Entry, r.FailObl, 2)
	}
	var wg sync.WaitGroup
	sem := make(chan struct{}, 6)
	for i, r := range failed {
		wg.Add(1)
		sem <- struct{}{}
		go func(i int, r *OblResult) {
			defer wg.Done()
			defer func() { <-sem }()
			c, f, d := e.investigate(cfg, rr.Solver, r, candLists[i])
			invs[i] = inv{r, c, f, d}
		}(i, r)
	}
	wg.Wait()

	violations := 0
	var knownLines, undecided []string
	for _, iv := range invs {
		name := iv.r.Name
		var kf *KnownFinding
		for k := range known {
			if known[k].Property == cfg.Prop && known[k].Obligation == name && known[k].Status == "open" {
				kf = &known[k]
			}
		}
		switch {
		case kf != nil:
			knownLines = append(knownLines, fmt.Sprintf("KNOWN-FINDING: property=%s %s: %s", cfg.Prop, name, kf.What))
		case iv.confirmed:
			fmt.Printf("VIOLATION property=%s replay=%s\n", cfg.Prop, iv.file)
			fmt.Printf("  obligation %s: %s [%s] — %s\n", name, iv.r.Desc, iv.r.Pos, iv.detail)
			violations++
		case haveBase && isBase(name):
			fmt.Printf("VIOLATION property=%s replay=%s no-failing-input-found\n", cfg.Prop, iv.file)
			fmt.Printf("  obligation %s (discharged on the baseline tree) now fails: %s [%s], solver says %s\n", name, iv.r.Desc, iv.r.Pos, iv.r.Fail.Status)
			violations++
		case iv.r.FailObl != nil && iv.r.FailObl.Goal != nil && iv.r.FailObl.Goal.IsFalse() && (iv.r.Kind == "pre" || strings.Contains(name, "/pre@") || strings.Contains(name, "/before@")):
			// a call-site requirement that the executor itself decides to be false (labels, literal
			// formats, …) on a satisfiable path: not a prover weakness, so it is reported even though
			// the call site is new and has no baseline entry
			fmt.Printf("VIOLATION property=%s replay=%s no-failing-input-found\n", cfg.Prop, iv.file)
			fmt.Printf("  obligation %s (new call site; the requirement is definitely false on a reachable path): %s [%s]\n", name, iv.r.Desc, iv.r.Pos)
			violations++
		case !haveBase:
			// no baseline yet: every failure is reported
			fmt.Printf("VIOLATION property=%s replay=%s no-failing-input-found\n", cfg.Prop, iv.file)
			fmt.Printf("  obligation %s: %s [%s], solver says %s\n", name, iv.r.Desc, iv.r.Pos, iv.r.Fail.Status)
			violations++
		default:
			undecided = append(undecided, name)
			fmt.Printf("UNDECIDED obligation=%s (%s; not in the baseline, no failing input found)\n", name, iv.r.Fail.Status)
		}
	}
	for _, l := range knownLines {
		fmt.Println(l)
	}
	probesRan, probesBad, probeFiles := e.runProbes(cfg)
	for i, n := range probesBad {
		fmt.Printf("VIOLATION property=%s replay=%s\n", cfg.Prop, probeFiles[i])
		fmt.Printf("  assumed clause %s fails its bounded probe on the real code\n", n)
		violations++
	}
	for _, p := range probesRan {
		e.noteAssumption("assumed clause tested by a bounded probe on every run (not proved): " + p)
	}
	e.probesRan, e.probesBad = probesRan, probesBad
	// baseline obligations that can no longer be generated
	var missing []string
	for n := range inBase {
		// implicit safety and call-site obligations depend on the shape of the code; only
		// post-conditions must keep existing: a frame obligation that is no longer emitted holds
		// trivially, and a loop invariant is a proof hint — when its loop has moved into a helper the
		// function's post-conditions are what still has to be proved
		if !generated[n] && strings.Contains(n, "/post#") {
			missing = append(missing, n)
		}
	}
	sort.Strings(missing)
	if len(missing) > 0 {
		f := filepath.Join(cfg.Work, "replay_missing_obligations.json")
		b, _ := json.MarshalIndent(map[string]interface{}{"verdict": "no-failing-input-found", "missing_obligations": missing,
			"why": "obligations of the baseline can no longer be generated: the function, loop or call they name is gone or changed shape"}, "", " ")
		os.WriteFile(f, b, 0o644)
		fmt.Printf("VIOLATION property=%s replay=%s no-failing-input-found\n", cfg.Prop, f)
		fmt.Printf("  %d baseline obligations can no longer be generated, e.g. %s\n", len(missing), missing[0])
		violations++
	}
	for _, v := range vacuous {
		fmt.Printf("VACUOUS %s\n", v)
	}
	for _, er := range rr.Errors {
		fmt.Println("TOOL-ERROR", er)
	}
	if updateBaseline {
		var names []string
		for _, r := range proved {
			names = append(names, r.Name)
		}
		sort.Strings(names)
		baseline[cfg.Prop] = names
		b, _ := json.MarshalIndent(baseline, "", " ")
		os.WriteFile(baselinePath, b, 0o644)
	}
	// must-fail self test (vacuity guard of the generator itself)
	nCan := 1
	if cfg.Tier == "thorough" {
		nCan = 0
	}
	ranCan, missedCan := runSelftest(cfg, "/verif/selftest/canaries.json", nCan)
	selftestRan, selftestMissed = ranCan, missedCan
	wall := time.Since(t0).Seconds()
	writeEvidence(e, cfg, rr, evidencePath, proved, failed, undecided, vacuous, knownLines, violations, covers, seed, wall)
	fmt.Printf("%s: functions=%d obligations=%d discharged=%d failed=%d (known=%d undecided=%d) violations=%d paths=%d queries=%d wall=%.1fs\n",
		cfg.Prop, len(rr.Funcs), len(proved)+len(failed), len(proved), len(failed), len(knownLines), len(undecided), violations, rr.Paths, rr.Solver.nQueries, wall)
	// scratch cleanup: keep replay files and a few sample obligations only
	cleanupWork(cfg.Work)
	if violations > 0 {
		return 1
	}
	if len(rr.Errors) > 0 || len(vacuous) > 0 || missedCan > 0 {
		return 2
	}
	return 0
}

func cleanupWork(dir string) {
	if os.Getenv("TQV_KEEP") != "" {
		return
	}
	ents, _ := os.ReadDir(dir)
	kept := 0
	for _, en := range ents {
		n := en.Name()
		switch {
		case strings.HasPrefix(n, "replay_"), n == "replay":
			continue
		case strings.HasSuffix(n, ".smt2") && strings.HasPrefix(n, "sample_"):
			continue
		case strings.HasSuffix(n, ".smt2") && strings.HasPrefix(n, "q") && kept < 0:
			kept++
			continue
		}
		os.RemoveAll(filepath.Join(dir, n))
	}
}

func writeEvidence(e *Engine, cfg RunConfig, rr *RunResult, path string, proved, failed []*OblResult, undecided, vacuous, known []string, violations, covers int, seed int64, wall float64) {
	if path == "" {
		return
	}
	var assumptions []string
	for a := range e.assumpLog {
		assumptions = append(assumptions, a)
	}
	sort.Strings(assumptions)
	assumptions = append(assumptions,
		"machine integers: int/int64 arithmetic is mathematical with a safe.overflow side obligation at each operation; narrower unsigned types wrap exactly (mod 2^n)",
		"every len/cap is assumed <= 2^40; total length of the strings of one slice <= 2^50 (address space)",
		"distinct parameters do not alias unless the contract says so",
		"sequential semantics: each function is verified as if it ran alone",
		"callee contracts are assumed at call sites; each is discharged in the check of the property its clauses are tagged with")
	var samples []map[string]interface{}
	for i, r := range proved {
		if i%(len(proved)/6+1) == 0 && len(samples) < 6 {
			samples = append(samples, map[string]interface{}{"obligation": r.Name, "kind": r.Kind, "what": r.Desc, "at": r.Pos, "paths": r.Paths, "result": "unsat (discharged)", "solver_seconds": round2(r.Secs)})
		}
	}
	for _, r := range failed {
		if len(samples) < 10 {
			samples = append(samples, map[string]interface{}{"obligation": r.Name, "kind": r.Kind, "what": r.Desc, "at": r.Pos, "result": "NOT discharged: " + r.Fail.Status})
		}
	}
	wins := map[string]int{}
	secs := map[string]float64{}
	for k, v := range rr.Solver.wins {
		wins[k] = v
	}
	for k, v := range rr.Solver.secs {
		secs[k] = round2(v)
	}
	trivial := 0
	for _, r := range proved {
		trivial += r.Trivial
	}
	trusted := []string{
		"tqv (this VC generator: SSA-to-SMT translation, loop-frame analysis, outcome merging) — guarded by the must-fail selftest corpus",
		"golang.org/x/tools/go/ssa v0.29.0 as the semantics of the Go source; Go compiler and runtime",
		"SMT solvers z3 4.8.12, z3 5.1.0, cvc5 1.0.3 (an unsat from any one is accepted)",
		"axioms of the spec vocabulary (tq_splice, tq_sumlen/tq_sumint unfolding+frame+monotonicity, tq_ascii witness, tq_xor8) — stated in vcgen/solve.go",
	}
	for _, a := range assumptions {
		if strings.HasPrefix(a, "assumed contract of ") {
			trusted = append(trusted, a)
		}
	}
	ev := map[string]interface{}{
		"property_id": cfg.Prop,
		"tier":        cfg.Tier,
		"seed":        seed,
		"level":       "proof",
		"coverage": map[string]interface{}{
			"obligations":                    len(proved) + len(failed) - len(known),
			"discharged":                     len(proved),
			"checker_cmd":                    fmt.Sprintf("/verif/bin/tqv -prop %s -tier %s (z3-new/z3/cvc5 raced per obligation, timeout %s)", cfg.Prop, cfg.Tier, cfg.Timeout),
			"trusted_base":                   trusted,
			"functions_under_contract":       rr.Funcs,
			"path_instances":                 rr.Paths,
			"solver_queries":                 rr.Solver.nQueries,
			"discharged_by_constant_folding": trivial,
			"discharged_by_backend":          wins,
			"solver_seconds":                 secs,
			"cover_checks":                   covers,
			"selftest_canaries_run":          selftestRan,
			"selftest_canaries_missed":       selftestMissed,
			"vacuous":                        vacuous,
			"known_findings_reported":        known,
			"undecided":                      undecided,
			"bounded_probes":                 boundedProbes(e),
			"not_discharged":                 oblNames(failed),
			"samples":                        samples,
			"load_seconds":                   round2(rr.LoadSecs),
			"generate_seconds":               round2(rr.GenSecs),
			"solve_seconds":                  round2(rr.SolveSecs),
		},
		"assumptions": assumptions,
		"wall_s":      round2(wall),
		"violations":  violations,
	}
	os.MkdirAll(filepath.Dir(path), 0o755)
	b, _ := json.MarshalIndent(ev, "", " ")
	os.WriteFile(path, b, 0o644)
}

var selftestRan, selftestMissed int

func oblNames(rs []*OblResult) []string {
	out := []string{}
	for _, r := range rs {
		out = append(out, r.Name)
	}
	return out
}

func round2(f float64) float64 { return float64(int(f*100+0.5)) / 100 }

// boundedProbes: the bounded stand-ins that ran in this check (never counted as proved).
func boundedProbes(e *Engine) []map[string]interface{} {
	var out []map[string]interface{}
	failed := map[string]bool{}
	for _, b := range e.probesBad {
		failed[b] = true
	}
	for _, p := range e.probesRan {
		name := p
		if i := strings.Index(p, ": "); i > 0 {
			name = p[:i]
		}
		out = append(out, map[string]interface{}{"probe": p, "level": "bounded (a test of the real code with the stated bound; not a proof)", "passed": !failed[name]})
	}
	return out
}

// slowest: the obligations whose single slowest query took longest (slow queries are the unstable ones).
func slowest(rr *RunResult, n int) []map[string]interface{} {
	rs := append([]*OblResult{}, rr.Results...)
	sort.Slice(rs, func(i, j int) bool { return rs[i].MaxSecs > rs[j].MaxSecs })
	var out []map[string]interface{}
	for i, r := range rs {
		if i >= n || r.MaxSecs < 0.5 {
			break
		}
		out = append(out, map[string]interface{}{"obligation": r.Name, "seconds": float64(int(r.MaxSecs*100)) / 100, "solver": r.SlowSolver})
	}
	return out
}
