package main

// Contract files: comment-only Go files in /repo (`//@ ...` lines, build tag verif)
// and /verif/spec/*.spec (same syntax, `//@` optional).

import (
	"fmt"
	"os"
	"path/filepath"
	"regexp"
	"strconv"
	"strings"
)

type Clause struct {
	Tags  []string
	E     Expr
	Text  string
	Ord   int
	Name  string // optional label
	Case  int    // >0: clause applies to that spec case only
	Axiom bool   // assumed at call sites, not checked in the body (determinism of a read-only function)
	File  string
	Line  int
}

type SpecCase struct {
	Ghost    []GhostVar
	Requires []*Clause
	Ensures  []*Clause
}

type GhostVar struct{ Name, Type string }

type AfterStmt struct {
	Callee, Ghost string
	E             Expr
	Tags          []string
}

type TaintDecl struct {
	E    Expr
	Bits uint8
	Tags []string
}

type Contract struct {
	Key          string
	Kind         string // func | trusted | interface
	Params       []string
	Results      []string
	Cases        []*SpecCase // at least one
	Modifies     []Expr
	ModAll       bool
	Loops        map[int][]*Clause
	Pure         bool
	File         string
	Line         int
	NoInline     bool
	Unverified   string           // non-empty: the body is not verified against the contract (assumed); reason
	GhostInc     []string         // ghost counters incremented by one on entry (ghost code of the function)
	GhostIncSite []string         // counters incremented only where an interface contract is applied at a dynamic call
	GhostSet     map[string]int64 // ghost variables set on entry
	Implements   []string         // interface-method contracts whose clauses this function inherits
	Afters       []AfterStmt      // auxiliary ghost assignments after calls (caller-owned history variables)
	Props        []string         // properties this function is verified under regardless of clause tags
	Taints       []TaintDecl      // taint sources: locations labelled at entry (C18)
	TaintAware   bool             // the contract states taint explicitly (no default propagation)
	Alias        map[string]int   // extra parameter names (of inherited clauses) -> parameter index
	Inl          bool             // callers inline the body instead of using the contract
	Witness      []string
	Lemmas       []*Clause
	Asserts      map[string][]*Clause // "call <callee>#n" -> clauses checked before that call
	UsedBy       map[string]bool
}

type SpecFun struct {
	Name   string
	Params []string
	PTypes []string
	Body   Expr
	Text   string
	File   string
}

var headRe = regexp.MustCompile(`^(func|trusted func|interface|lemma)\s+(?:\(\s*(\w+)\s+[^)]*\)\s*)?([\w.$/*\-]+)\s*\((.*)$`)

func splitTop(s string) []string {
	var out []string
	depth := 0
	cur := ""
	for _, r := range s {
		switch r {
		case '(', '[', '{':
			depth++
		case ')', ']', '}':
			depth--
		case ',':
			if depth == 0 {
				out = append(out, strings.TrimSpace(cur))
				cur = ""
				continue
			}
		}
		cur += string(r)
	}
	if strings.TrimSpace(cur) != "" {
		out = append(out, strings.TrimSpace(cur))
	}
	return out
}

// matchParen returns the index just after the parenthesis closing s[0]=='('.
func matchParen(s string) int {
	depth := 0
	for i, r := range s {
		switch r {
		case '(':
			depth++
		case ')':
			depth--
			if depth == 0 {
				return i + 1
			}
		}
	}
	return -1
}

func firstWord(s string) string {
	s = strings.TrimSpace(s)
	if i := strings.IndexAny(s, " \t"); i >= 0 {
		return s[:i]
	}
	return s
}

func parseHeader(line string) (kind, recv, name string, params, results []string, err error) {
	m := headRe.FindStringSubmatch(line)
	if m == nil {
		return "", "", "", nil, nil, fmt.Errorf("bad contract header: %s", line)
	}
	kind, recv, name = m[1], m[2], m[3]
	rest := "(" + m[4]
	end := matchParen(rest)
	if end < 0 {
		return "", "", "", nil, nil, fmt.Errorf("unbalanced header: %s", line)
	}
	for _, p := range splitTop(rest[1 : end-1]) {
		params = append(params, firstWord(p))
	}
	tail := strings.TrimSpace(rest[end:])
	if strings.HasPrefix(tail, "(") {
		e2 := matchParen(tail)
		if e2 < 0 {
			return "", "", "", nil, nil, fmt.Errorf("unbalanced results: %s", line)
		}
		for _, p := range splitTop(tail[1 : e2-1]) {
			results = append(results, firstWord(p))
		}
	}
	if recv != "" {
		params = append([]string{recv}, params...)
	}
	return
}

var recvTypeRe = regexp.MustCompile(`^(?:func|trusted func)\s+\(\s*\w+\s+\*?([\w.]+)\s*\)`)

var clauseRe = regexp.MustCompile(`^(requires|ensures|axiom|invariant|assert)(?:\[([\w, ]+)\])?\s+(.*)$`)
var loopRe = regexp.MustCompile(`^loop\s+(\d+)\s+invariant(?:\[([\w, ]+)\])?\s+(.*)$`)
var specRe = regexp.MustCompile(`^spec\s+([\w.]+)\s*\(([^)]*)\)\s*(\w*)\s*:=\s*(.*)$`)

func parseTags(s string) []string {
	var out []string
	for _, t := range strings.Split(s, ",") {
		t = strings.TrimSpace(t)
		if t != "" {
			out = append(out, t)
		}
	}
	return out
}

// loadContractFile parses one file. pkgShort is the package prefix for `func` headers ("" in spec files → keys must be qualified).
func (e *Engine) loadContractFile(path, pkgShort string) error {
	data, err := os.ReadFile(path)
	if err != nil {
		return err
	}
	isSpec := strings.HasSuffix(path, ".spec")
	type logical struct {
		text string
		line int
	}
	var lines []logical
	for i, raw := range strings.Split(string(data), "\n") {
		t := strings.TrimSpace(raw)
		if strings.HasPrefix(t, "//@") {
			t = strings.TrimSpace(t[3:])
		} else if !isSpec {
			continue
		}
		if t == "" || strings.HasPrefix(t, "//") || strings.HasPrefix(t, "#") {
			continue
		}
		// strip trailing comment
		if j := strings.Index(t, " // "); j >= 0 {
			t = strings.TrimSpace(t[:j])
		}
		if isSpec {
			if j := strings.Index(t, " # "); j >= 0 {
				t = strings.TrimSpace(t[:j])
			}
		}
		lines = append(lines, logical{t, i + 1})
	}
	isStart := func(s string) bool {
		for _, k := range []string{"func ", "trusted func ", "interface ", "spec ", "ghostvar ", "propset ", "requires", "ensures", "axiom", "modifies", "loop ", "ghost ", "also", "pure", "noinline", "inline", "props ", "taints", "before", "after", "ghostinc_callsite ", "ghostinc ", "ghostset ", "implements ", "unverified", "witness ", "lemma ", "assert", "at "} {
			if strings.HasPrefix(s, k) {
				return true
			}
		}
		return false
	}
	// join continuation lines
	var joined []logical
	for _, l := range lines {
		if len(joined) > 0 && !isStart(l.text) {
			joined[len(joined)-1].text += " " + l.text
			continue
		}
		joined = append(joined, l)
	}
	var cur *Contract
	var curCase *SpecCase
	ord := 0
	for _, l := range joined {
		t := l.text
		switch {
		case strings.HasPrefix(t, "propset "):
			w := strings.Fields(t)
			if len(w) == 3 && w[2] == "all" {
				e.propAll[w[1]] = true
			}
			cur = nil
		case strings.HasPrefix(t, "ghostvar "):
			w := strings.Fields(t)
			if len(w) == 4 && w[3] == "aux" {
				// auxiliary variable: names an intermediate value inside one function's contract;
				// it carries no state between functions and is exempt from callers' frames
				e.auxGhost[w[1]] = true
				w = w[:3]
			}
			if len(w) != 3 {
				return fmt.Errorf("%s:%d: ghostvar needs name and sort", path, l.line)
			}
			srt := map[string]string{"int": SInt, "bool": SBool, "seq": SSeq, "ref": SRef, "bytes": "bytes", "refmap": SMapRI}[w[2]]
			if srt == "" {
				return fmt.Errorf("%s:%d: unknown ghost sort %s", path, l.line, w[2])
			}
			e.ghostSorts[w[1]] = srt
			cur = nil
		case strings.HasPrefix(t, "spec "):
			m := specRe.FindStringSubmatch(t)
			if m == nil {
				return fmt.Errorf("%s:%d: bad spec: %s", path, l.line, t)
			}
			sf := &SpecFun{Name: m[1], Text: m[4], File: path}
			for _, p := range splitTop(m[2]) {
				w := strings.Fields(p)
				sf.Params = append(sf.Params, w[0])
				if len(w) > 1 {
					sf.PTypes = append(sf.PTypes, w[1])
				} else {
					sf.PTypes = append(sf.PTypes, "")
				}
			}
			ex, err := parseExpr(m[4])
			if err != nil {
				return fmt.Errorf("%s:%d: spec %s: %v", path, l.line, m[1], err)
			}
			sf.Body = ex
			e.specFuns[sf.Name] = sf
			cur = nil
		case strings.HasPrefix(t, "func ") || strings.HasPrefix(t, "trusted func ") || strings.HasPrefix(t, "interface "):
			kind, _, name, params, results, err := parseHeader(t)
			if err != nil {
				return fmt.Errorf("%s:%d: %v", path, l.line, err)
			}
			key := name
			if kind == "func" || kind == "trusted func" {
				if m := recvTypeRe.FindStringSubmatch(t); m != nil {
					key = m[1] + "." + name
				}
				if pkgShort != "" && !strings.Contains(strings.TrimSuffix(key, "."+name), "/") && !isSpec {
					key = pkgShort + "." + key
				}
			}
			cur = &Contract{Key: key, Kind: kind, Params: params, Results: results, Loops: map[int][]*Clause{}, File: path, Line: l.line, Asserts: map[string][]*Clause{}}
			curCase = &SpecCase{}
			cur.Cases = []*SpecCase{curCase}
			ord = 0
			if kind == "interface" {
				e.ifaceCon[key] = cur
			} else {
				if _, dup := e.contracts[key]; dup {
					return fmt.Errorf("%s:%d: duplicate contract for %s", path, l.line, key)
				}
				e.contracts[key] = cur
			}
		case cur == nil:
			return fmt.Errorf("%s:%d: clause outside contract: %s", path, l.line, t)
		case t == "also":
			curCase = &SpecCase{}
			cur.Cases = append(cur.Cases, curCase)
		case t == "pure":
			cur.Pure = true
		case strings.HasPrefix(t, "unverified"):
			cur.Unverified = strings.TrimSpace(strings.TrimPrefix(t, "unverified"))
			if cur.Unverified == "" {
				cur.Unverified = "body not verified against this contract"
			}
		case strings.HasPrefix(t, "taints"):
			rest := strings.TrimSpace(t[len("taints"):])
			var ttags []string
			if strings.HasPrefix(rest, "[") {
				if j := strings.Index(rest, "]"); j > 0 {
					ttags = parseTags(rest[1:j])
					rest = strings.TrimSpace(rest[j+1:])
				}
			}
			j := strings.LastIndex(rest, " ")
			if j < 0 {
				return fmt.Errorf("%s:%d: taints needs expression and label bits", path, l.line)
			}
			bits, _ := strconv.Atoi(strings.TrimSpace(rest[j+1:]))
			ex, err := parseExpr(rest[:j])
			if err != nil {
				return fmt.Errorf("%s:%d: taints: %v", path, l.line, err)
			}
			cur.Taints = append(cur.Taints, TaintDecl{ex, uint8(bits), ttags})
		case strings.HasPrefix(t, "after"):
			// after[Tags] <callee key suffix> : <ghost> = <expr> — auxiliary (caller-owned) ghost
			// assignment executed after every call of that callee; ret0.. name its results, arg0.. its arguments
			rest := strings.TrimSpace(t[len("after"):])
			var atags []string
			if strings.HasPrefix(rest, "[") {
				if j := strings.Index(rest, "]"); j > 0 {
					atags = parseTags(rest[1:j])
					rest = strings.TrimSpace(rest[j+1:])
				}
			}
			j := strings.Index(rest, " : ")
			k := strings.Index(rest, " = ")
			if j < 0 || k < j || cur == nil {
				return fmt.Errorf("%s:%d: after needs '<callee> : <ghost> = <expr>'", path, l.line)
			}
			callee := strings.TrimSpace(rest[:j])
			gname := strings.TrimPrefix(strings.TrimSpace(rest[j+3:k]), "ghost.")
			ex, err := parseExpr(rest[k+3:])
			if err != nil {
				return fmt.Errorf("%s:%d: after: %v", path, l.line, err)
			}
			cur.Afters = append(cur.Afters, AfterStmt{Callee: callee, Ghost: gname, E: ex, Tags: atags})
		case strings.HasPrefix(t, "props "):
			// the function is verified under these properties whatever the tags of its clauses
			if cur != nil {
				cur.Props = append(cur.Props, strings.Fields(strings.ReplaceAll(t[len("props "):], ",", " "))...)
			}
		case strings.HasPrefix(t, "before"):
			// before[Tags] <callee key suffix> : <expr> — proof obligation at every call of that callee
			rest := strings.TrimSpace(t[len("before"):])
			var btags []string
			if strings.HasPrefix(rest, "[") {
				if j := strings.Index(rest, "]"); j > 0 {
					btags = parseTags(rest[1:j])
					rest = strings.TrimSpace(rest[j+1:])
				}
			}
			j := strings.Index(rest, " : ")
			if j < 0 || cur == nil {
				return fmt.Errorf("%s:%d: before needs '<callee> : <expr>'", path, l.line)
			}
			callee := strings.TrimSpace(rest[:j])
			ex, err := parseExpr(rest[j+3:])
			if err != nil {
				return fmt.Errorf("%s:%d: before: %v", path, l.line, err)
			}
			ord++
			cur.Asserts[callee] = append(cur.Asserts[callee], &Clause{Tags: btags, E: ex, Text: rest[j+3:], Ord: ord, File: path, Line: l.line})
		case strings.HasPrefix(t, "implements "):
			cur.Implements = append(cur.Implements, strings.TrimSpace(t[len("implements "):]))
		case strings.HasPrefix(t, "ghostset "):
			w := strings.Fields(t)
			if len(w) != 3 {
				return fmt.Errorf("%s:%d: ghostset needs name and integer", path, l.line)
			}
			n, _ := strconv.Atoi(w[2])
			if cur.GhostSet == nil {
				cur.GhostSet = map[string]int64{}
			}
			cur.GhostSet[w[1]] = int64(n)
		case strings.HasPrefix(t, "ghostinc_callsite "):
			cur.GhostIncSite = append(cur.GhostIncSite, strings.TrimSpace(t[len("ghostinc_callsite "):]))
		case strings.HasPrefix(t, "ghostinc "):
			cur.GhostInc = append(cur.GhostInc, strings.TrimSpace(t[len("ghostinc "):]))
		case t == "noinline":
			cur.NoInline = true
		case t == "inline":
			cur.Inl = true
		case strings.HasPrefix(t, "ghost "):
			w := strings.Fields(t)
			if len(w) < 3 {
				return fmt.Errorf("%s:%d: ghost needs name and type", path, l.line)
			}
			curCase.Ghost = append(curCase.Ghost, GhostVar{w[1], strings.Join(w[2:], " ")})
		case strings.HasPrefix(t, "witness "):
			cur.Witness = append(cur.Witness, strings.TrimSpace(t[8:]))
		case strings.HasPrefix(t, "modifies"):
			rest := strings.TrimSpace(t[len("modifies"):])
			if rest == "*" {
				cur.ModAll = true
				break
			}
			for _, p := range splitTop(rest) {
				ex, err := parseExpr(p)
				if err != nil {
					return fmt.Errorf("%s:%d: modifies: %v", path, l.line, err)
				}
				cur.Modifies = append(cur.Modifies, ex)
			}
		case strings.HasPrefix(t, "loop "):
			m := loopRe.FindStringSubmatch(t)
			if m == nil {
				return fmt.Errorf("%s:%d: bad loop clause: %s", path, l.line, t)
			}
			n, _ := strconv.Atoi(m[1])
			ex, err := parseExpr(m[3])
			if err != nil {
				return fmt.Errorf("%s:%d: invariant: %v\n   in: %s", path, l.line, err, m[3])
			}
			lc := &Clause{E: ex, Text: m[3], Ord: len(cur.Loops[n]) + 1, File: path, Line: l.line}
			for _, tg := range parseTags(m[2]) {
				if strings.HasPrefix(tg, "case") {
					lc.Case, _ = strconv.Atoi(tg[4:])
				} else {
					lc.Tags = append(lc.Tags, tg)
				}
			}
			cur.Loops[n] = append(cur.Loops[n], lc)
		default:
			m := clauseRe.FindStringSubmatch(t)
			if m == nil {
				return fmt.Errorf("%s:%d: unknown clause: %s", path, l.line, t)
			}
			ex, err := parseExpr(m[3])
			if err != nil {
				return fmt.Errorf("%s:%d: %s: %v\n   in: %s", path, l.line, m[1], err, m[3])
			}
			ord++
			cl := &Clause{Tags: parseTags(m[2]), E: ex, Text: m[3], Ord: ord, File: path, Line: l.line}
			if m[1] == "ensures" && (strings.Contains(m[3], "tainted(") || strings.Contains(m[3], "maytaint(") || strings.Contains(m[3], "taintkeys(") || strings.Contains(m[3], "untainted")) {
				cur.TaintAware = true
			}
			switch m[1] {
			case "requires":
				curCase.Requires = append(curCase.Requires, cl)
			case "ensures", "axiom":
				cl.Axiom = m[1] == "axiom"
				cl.Ord = len(curCase.Ensures) + 1
				for _, c := range cur.Cases[:len(cur.Cases)-1] {
					cl.Ord += len(c.Ensures)
				}
				curCase.Ensures = append(curCase.Ensures, cl)
			default:
				return fmt.Errorf("%s:%d: clause %s not allowed here", path, l.line, m[1])
			}
		}
	}
	return nil
}

func (e *Engine) loadContracts(repo, specDir string) error {
	// spec files
	specs, _ := filepath.Glob(filepath.Join(specDir, "*.spec"))
	for _, f := range specs {
		if err := e.loadContractFile(f, ""); err != nil {
			return err
		}
	}
	// repo contract files
	err := filepath.Walk(repo, func(p string, info os.FileInfo, err error) error {
		if err != nil {
			return nil
		}
		if info.IsDir() {
			if strings.HasPrefix(info.Name(), ".") && p != repo {
				return filepath.SkipDir
			}
			return nil
		}
		if info.Name() != "contracts_verif.go" {
			return nil
		}
		rel, _ := filepath.Rel(repo, filepath.Dir(p))
		pkg := "tacquito"
		if rel != "." {
			pkg = filepath.ToSlash(rel)
		}
		return e.loadContractFile(p, pkg)
	})
	if err != nil {
		return err
	}
	return e.resolveImplements()
}

// resolveImplements copies the clauses of interface-method contracts into the
// contracts of the functions that declare `implements` (behavioural subtyping: the
// implementation is verified against the interface contract, with the same meaning).
func (e *Engine) resolveImplements() error {
	for _, c := range e.contracts {
		for _, ik := range c.Implements {
			ic := e.ifaceCon[ik]
			if ic == nil {
				// allow the tq. alias
				ic = e.ifaceCon[strings.Replace(ik, "tq.", "tacquito.", 1)]
			}
			if ic == nil {
				return fmt.Errorf("%s: implements unknown interface contract %s", c.Key, ik)
			}
			if c.Alias == nil {
				c.Alias = map[string]int{}
			}
			for i, n := range ic.Params {
				c.Alias[n] = i
			}
			base := 0
			for _, sc := range c.Cases {
				base += len(sc.Ensures)
			}
			for _, rq := range ic.Cases[0].Requires {
				c.Cases[0].Requires = append(c.Cases[0].Requires, rq)
			}
			for _, en := range ic.Cases[0].Ensures {
				cp := *en
				base++
				cp.Ord = base
				cp.Text = en.Text + " (inherited from " + ik + ")"
				c.Cases[0].Ensures = append(c.Cases[0].Ensures, &cp)
			}
			c.Modifies = append(c.Modifies, ic.Modifies...)
			// ghost counters the interface contract increments at call sites may change inside an
			// implementation through nested calls of the same interface
			for _, g := range ic.GhostIncSite {
				c.Modifies = append(c.Modifies, &EField{&EIdent{"ghost"}, g})
			}
			c.GhostInc = append(c.GhostInc, ic.GhostInc...)
		}
	}
	return nil
}

func hasTag(tags []string, want map[string]bool) bool {
	if want == nil || len(tags) == 0 {
		return true
	}
	for _, t := range tags {
		if want[t] {
			return true
		}
	}
	return false
}
