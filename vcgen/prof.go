package main

import (
	"os"
	"runtime/pprof"
)

func startProfile() func() {
	p := os.Getenv("TQV_PROF")
	if p == "" {
		return func() {}
	}
	f, _ := os.Create(p)
	pprof.StartCPUProfile(f)
	return func() { pprof.StopCPUProfile(); f.Close() }
}
