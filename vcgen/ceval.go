package main

// Concrete, three-valued interpreter for contract expressions. It evaluates the
// very same contract text on values observed when the real code was run by a
// replay; it is used only to confirm or reject counterexample candidates.

import (
	"encoding/hex"
	"fmt"
	"go/constant"
	"go/types"
	"math/big"
	"strings"
)

// JVal mirrors tqvVal of the harness.
type JVal struct {
	N   *int64          `json:"n,omitempty"`
	U   *uint64         `json:"u,omitempty"`
	B   *bool           `json:"bool,omitempty"`
	S   *string         `json:"s,omitempty"`
	Y   *string         `json:"b,omitempty"`
	Cap int             `json:"cap,omitempty"`
	Nil bool            `json:"nil,omitempty"`
	F   map[string]JVal `json:"f,omitempty"`
	P   *JVal           `json:"p,omitempty"`
	L   []JVal          `json:"l,omitempty"`
	T   string          `json:"t,omitempty"`
	Msg string          `json:"msg,omitempty"`
}

type (
	CBytes struct {
		B     []byte
		Nil   bool
		IsStr bool
	}
	CStruct struct{ F map[string]CV }
	CList   struct {
		L   []CV
		Nil bool
	}
	CPtr struct {
		Nil bool
		V   CV
	}
	CIface struct {
		Nil  bool
		Type string
	}
	CType   struct{ T types.Type }
	CNilLit struct{}
	CUnk    struct{ Why string }
)
type CV interface{}

func jToC(j JVal) CV {
	switch {
	case j.N != nil:
		return big.NewInt(*j.N)
	case j.U != nil:
		return new(big.Int).SetUint64(*j.U)
	case j.B != nil:
		return *j.B
	case j.S != nil:
		b, _ := hex.DecodeString(*j.S)
		return CBytes{B: b, IsStr: true}
	case j.Y != nil:
		b, _ := hex.DecodeString(*j.Y)
		return CBytes{B: b}
	case j.F != nil:
		m := map[string]CV{}
		for k, v := range j.F {
			m[k] = jToC(v)
		}
		return CStruct{m}
	case j.P != nil:
		return CPtr{V: jToC(*j.P)}
	case j.L != nil:
		l := make([]CV, len(j.L))
		for i := range j.L {
			l[i] = jToC(j.L[i])
		}
		return CList{L: l}
	case j.T != "":
		return CIface{Type: j.T}
	case j.Nil:
		return CNilLit{}
	}
	return CUnk{"empty"}
}

type CEval struct {
	e    *Engine
	cur  map[string]CV
	old  map[string]CV
	pkg  *types.Package
	errs []string
	n    int
}

func (c *CEval) unk(format string, a ...interface{}) CV {
	return CUnk{fmt.Sprintf(format, a...)}
}

func cbool(v CV) (bool, bool) {
	b, ok := v.(bool)
	return b, ok
}

func cint(v CV) (*big.Int, bool) {
	b, ok := v.(*big.Int)
	return b, ok
}

func (c *CEval) with(name string, v CV) *CEval {
	n := *c
	n.cur = make(map[string]CV, len(c.cur)+1)
	for k, x := range c.cur {
		n.cur[k] = x
	}
	n.cur[name] = v
	return &n
}

func (c *CEval) ident(name string) CV {
	if v, ok := c.cur[name]; ok {
		return v
	}
	ctx := &EvalCtx{e: c.e, pkg: c.pkg}
	look := func(p *types.Package) CV {
		if p == nil {
			return nil
		}
		switch o := p.Scope().Lookup(name).(type) {
		case *types.Const:
			if i, ok := constant.Int64Val(constant.ToInt(o.Val())); ok && o.Val().Kind() != constant.String {
				return big.NewInt(i)
			}
			if o.Val().Kind() == constant.String {
				return CBytes{B: []byte(constant.StringVal(o.Val())), IsStr: true}
			}
		case *types.TypeName:
			return CType{o.Type()}
		}
		return nil
	}
	if v := look(c.pkg); v != nil {
		return v
	}
	if sp := c.e.ssaPkgs[modPath]; sp != nil {
		if v := look(sp.Pkg); v != nil {
			return v
		}
	}
	_ = ctx
	if name == "nil" {
		return CNilLit{}
	}
	return c.unk("unknown identifier %s", name)
}

func isNilC(v CV) (bool, bool) {
	switch x := v.(type) {
	case CNilLit:
		return true, true
	case CBytes:
		return x.Nil, true
	case CList:
		return x.Nil, true
	case CPtr:
		return x.Nil, true
	case CIface:
		return x.Nil, true
	}
	return false, false
}

func (c *CEval) eq(a, b CV) CV {
	if _, ok := a.(CNilLit); ok {
		a, b = b, a
	}
	if _, ok := b.(CNilLit); ok {
		n, ok := isNilC(a)
		if !ok {
			return c.unk("nil comparison of %T", a)
		}
		return n
	}
	switch x := a.(type) {
	case *big.Int:
		if y, ok := b.(*big.Int); ok {
			return x.Cmp(y) == 0
		}
		if t, ok := b.(CType); ok {
			_ = t
			return c.unk("int vs type")
		}
	case bool:
		if y, ok := b.(bool); ok {
			return x == y
		}
	case CBytes:
		if y, ok := b.(CBytes); ok {
			if !x.IsStr && !y.IsStr {
				return c.unk("slice identity comparison")
			}
			return string(x.B) == string(y.B)
		}
	case CStruct:
		if y, ok := b.(CStruct); ok {
			res := true
			for k, xv := range x.F {
				r := c.eq(xv, y.F[k])
				rb, ok := cbool(r)
				if !ok {
					return r
				}
				res = res && rb
			}
			return res
		}
	case CType:
		// typeOf(x) == T
		if y, ok := b.(CType); ok {
			return types.Identical(x.T, y.T)
		}
	case string: // result of typeOf
		if y, ok := b.(CType); ok {
			return x == types.TypeString(y.T, func(p *types.Package) string { return p.Name() })
		}
	}
	if s, ok := b.(string); ok {
		if t, ok2 := a.(CType); ok2 {
			return s == types.TypeString(t.T, func(p *types.Package) string { return p.Name() })
		}
	}
	return c.unk("cannot compare %T and %T", a, b)
}

func (c *CEval) field(v CV, name string) CV {
	switch s := v.(type) {
	case CPtr:
		if s.Nil {
			return c.unk("field of nil pointer")
		}
		return c.field(s.V, name)
	case CStruct:
		if f, ok := s.F[name]; ok {
			return f
		}
	}
	return c.unk("no field %s in %T", name, v)
}

func (c *CEval) eval(x Expr) CV {
	c.n++
	if c.n > 3000000 {
		return c.unk("evaluation budget exceeded")
	}
	switch e := x.(type) {
	case *EIdent:
		return c.ident(e.Name)
	case *ENum:
		n := new(big.Int)
		n.SetString(e.V, 0)
		return n
	case *EStr:
		return CBytes{B: []byte(e.V), IsStr: true}
	case *EBool:
		return e.V
	case *EUnary:
		v := c.eval(e.X)
		switch e.Op {
		case "!":
			if b, ok := cbool(v); ok {
				return !b
			}
			return v
		case "-":
			if i, ok := cint(v); ok {
				return new(big.Int).Neg(i)
			}
		case "*":
			switch p := v.(type) {
			case CPtr:
				if p.Nil {
					return c.unk("deref nil")
				}
				return p.V
			case CType:
				return CType{types.NewPointer(p.T)}
			}
		}
		return c.unk("unary %s on %T", e.Op, v)
	case *EBinary:
		return c.binary(e)
	case *ECond:
		cv := c.eval(e.C)
		if b, ok := cbool(cv); ok {
			if b {
				return c.eval(e.A)
			}
			return c.eval(e.B)
		}
		return cv
	case *ELet:
		return c.with(e.Name, c.eval(e.Val)).eval(e.Body)
	case *EQuant:
		return c.quant(e)
	case *EField:
		if id, ok := e.X.(*EIdent); ok {
			if _, bound := c.cur[id.Name]; !bound {
				ctx := &EvalCtx{e: c.e, pkg: c.pkg}
				if p := ctx.findPkg(id.Name); p != nil {
					n := *c
					n.pkg = p
					n.cur = map[string]CV{}
					return n.ident(e.Name)
				}
			}
		}
		return c.field(c.eval(e.X), e.Name)
	case *EIndex:
		v := c.eval(e.X)
		i, ok := cint(c.eval(e.I))
		if !ok {
			return c.unk("non-integer index")
		}
		if p, isPtr := v.(CPtr); isPtr && !p.Nil {
			v = p.V
		}
		switch s := v.(type) {
		case CBytes:
			if i.Sign() < 0 || i.Cmp(big.NewInt(int64(len(s.B)))) >= 0 {
				return c.unk("index out of range")
			}
			return big.NewInt(int64(s.B[i.Int64()]))
		case CList:
			if i.Sign() < 0 || i.Cmp(big.NewInt(int64(len(s.L)))) >= 0 {
				return c.unk("index out of range")
			}
			return s.L[i.Int64()]
		}
		return c.unk("index of %T", v)
	case *ESlice:
		v := c.eval(e.X)
		s, ok := v.(CBytes)
		if !ok {
			return c.unk("slice of %T", v)
		}
		lo, hi := 0, len(s.B)
		if e.Lo != nil {
			if i, ok := cint(c.eval(e.Lo)); ok && i.IsInt64() {
				lo = int(i.Int64())
			} else {
				return c.unk("slice bound")
			}
		}
		if e.Hi != nil {
			if i, ok := cint(c.eval(e.Hi)); ok && i.IsInt64() {
				hi = int(i.Int64())
			} else {
				return c.unk("slice bound")
			}
		}
		if lo < 0 || hi > len(s.B) || lo > hi {
			return c.unk("slice bounds")
		}
		return CBytes{B: s.B[lo:hi], IsStr: s.IsStr}
	case *EAll:
		return c.eval(e.X)
	case *ECall:
		return c.call(e)
	}
	return c.unk("cannot evaluate %s", exprStr(x))
}

func (c *CEval) binary(e *EBinary) CV {
	switch e.Op {
	case "&&":
		a := c.eval(e.X)
		if ab, ok := cbool(a); ok && !ab {
			return false
		}
		b := c.eval(e.Y)
		if bb, ok := cbool(b); ok && !bb {
			return false
		}
		if _, ok := cbool(a); !ok {
			return a
		}
		return b
	case "||":
		a := c.eval(e.X)
		if ab, ok := cbool(a); ok && ab {
			return true
		}
		b := c.eval(e.Y)
		if bb, ok := cbool(b); ok && bb {
			return true
		}
		if _, ok := cbool(a); !ok {
			return a
		}
		return b
	case "==>":
		a := c.eval(e.X)
		if ab, ok := cbool(a); ok && !ab {
			return true
		}
		b := c.eval(e.Y)
		if bb, ok := cbool(b); ok && bb {
			return true
		}
		if _, ok := cbool(a); !ok {
			return a
		}
		return b
	case "<==>":
		a, b := c.eval(e.X), c.eval(e.Y)
		ab, ok1 := cbool(a)
		bb, ok2 := cbool(b)
		if !ok1 {
			return a
		}
		if !ok2 {
			return b
		}
		return ab == bb
	case "==":
		return c.eq(c.eval(e.X), c.eval(e.Y))
	case "!=":
		r := c.eq(c.eval(e.X), c.eval(e.Y))
		if b, ok := cbool(r); ok {
			return !b
		}
		return r
	}
	a, ok1 := cint(c.eval(e.X))
	b, ok2 := cint(c.eval(e.Y))
	if !ok1 || !ok2 {
		return c.unk("operator %s on non-integers in %s", e.Op, exprStr(e))
	}
	switch e.Op {
	case "<":
		return a.Cmp(b) < 0
	case "<=":
		return a.Cmp(b) <= 0
	case ">":
		return a.Cmp(b) > 0
	case ">=":
		return a.Cmp(b) >= 0
	case "+":
		return new(big.Int).Add(a, b)
	case "-":
		return new(big.Int).Sub(a, b)
	case "*":
		return new(big.Int).Mul(a, b)
	case "/", "div":
		if b.Sign() == 0 {
			return c.unk("div by zero")
		}
		return new(big.Int).Div(a, b)
	case "%", "mod":
		if b.Sign() == 0 {
			return c.unk("mod by zero")
		}
		return new(big.Int).Mod(a, b)
	case "<<":
		return new(big.Int).Lsh(a, uint(b.Int64()))
	case ">>":
		return new(big.Int).Rsh(a, uint(b.Int64()))
	case "&":
		return new(big.Int).And(a, b)
	case "|":
		return new(big.Int).Or(a, b)
	}
	return c.unk("operator %s", e.Op)
}

// bounds extracts integer bounds for variable v from the guard g.
func (c *CEval) bounds(g Expr, v string, lo, hi **big.Int) {
	b, ok := g.(*EBinary)
	if !ok {
		return
	}
	if b.Op == "&&" {
		c.bounds(b.X, v, lo, hi)
		c.bounds(b.Y, v, lo, hi)
		return
	}
	isV := func(x Expr) bool { id, ok := x.(*EIdent); return ok && id.Name == v }
	mentions := func(x Expr) bool { return strings.Contains(" "+exprStr(x)+" ", v) && exprMentions(x, v) }
	setLo := func(n *big.Int) {
		if *lo == nil || n.Cmp(*lo) > 0 {
			*lo = n
		}
	}
	setHi := func(n *big.Int) { // inclusive
		if *hi == nil || n.Cmp(*hi) < 0 {
			*hi = n
		}
	}
	one := big.NewInt(1)
	switch {
	case isV(b.Y) && !mentions(b.X):
		if n, ok := cint(c.eval(b.X)); ok {
			switch b.Op {
			case "<=":
				setLo(n)
			case "<":
				setLo(new(big.Int).Add(n, one))
			case ">=":
				setHi(n)
			case ">":
				setHi(new(big.Int).Sub(n, one))
			}
		}
	case isV(b.X) && !mentions(b.Y):
		if n, ok := cint(c.eval(b.Y)); ok {
			switch b.Op {
			case "<=":
				setHi(n)
			case "<":
				setHi(new(big.Int).Sub(n, one))
			case ">=":
				setLo(n)
			case ">":
				setLo(new(big.Int).Add(n, one))
			}
		}
	}
}

func exprMentions(x Expr, v string) bool {
	switch e := x.(type) {
	case *EIdent:
		return e.Name == v
	case *EUnary:
		return exprMentions(e.X, v)
	case *EBinary:
		return exprMentions(e.X, v) || exprMentions(e.Y, v)
	case *ECall:
		for _, a := range e.Args {
			if exprMentions(a, v) {
				return true
			}
		}
	case *EIndex:
		return exprMentions(e.X, v) || exprMentions(e.I, v)
	case *EField:
		return exprMentions(e.X, v)
	case *ESlice:
		return exprMentions(e.X, v) || (e.Lo != nil && exprMentions(e.Lo, v)) || (e.Hi != nil && exprMentions(e.Hi, v))
	case *ECond:
		return exprMentions(e.C, v) || exprMentions(e.A, v) || exprMentions(e.B, v)
	case *EQuant:
		return exprMentions(e.Body, v)
	case *ELet:
		return exprMentions(e.Val, v) || exprMentions(e.Body, v)
	case *EAll:
		return exprMentions(e.X, v)
	}
	return false
}

func (c *CEval) quant(q *EQuant) CV {
	forall := q.Kind == "forall"
	var rec func(cc *CEval, vi int) CV
	rec = func(cc *CEval, vi int) CV {
		if vi == len(q.Vars) {
			return cc.eval(q.Body)
		}
		v := q.Vars[vi]
		var guard Expr
		if b, ok := q.Body.(*EBinary); ok && (b.Op == "==>" || (!forall && b.Op == "&&")) {
			guard = b.X
		}
		var lo, hi *big.Int
		if guard != nil {
			cc.bounds(guard, v, &lo, &hi)
		}
		if lo == nil || hi == nil {
			return cc.unk("no finite range for %s", v)
		}
		if new(big.Int).Sub(hi, lo).Cmp(big.NewInt(300000)) > 0 {
			return cc.unk("range of %s too large", v)
		}
		sawUnk := CV(nil)
		for i := new(big.Int).Set(lo); i.Cmp(hi) <= 0; i = new(big.Int).Add(i, big.NewInt(1)) {
			r := rec(cc.with(v, new(big.Int).Set(i)), vi+1)
			b, ok := cbool(r)
			if !ok {
				sawUnk = r
				continue
			}
			if forall && !b {
				return false
			}
			if !forall && b {
				return true
			}
		}
		if sawUnk != nil {
			return sawUnk
		}
		return forall
	}
	return rec(c, 0)
}

func (c *CEval) bytesOf(v CV) ([]byte, bool) {
	if p, ok := v.(CPtr); ok && !p.Nil {
		v = p.V
	}
	b, ok := v.(CBytes)
	return b.B, ok
}

func (c *CEval) call(e *ECall) CV {
	arg := func(i int) CV {
		if i < len(e.Args) {
			return c.eval(e.Args[i])
		}
		return c.unk("missing argument")
	}
	switch e.Fun {
	case "old":
		n := *c
		n.cur = map[string]CV{}
		for k, v := range c.cur {
			n.cur[k] = v
		}
		for k, v := range c.old {
			n.cur[k] = v
		}
		return n.eval(e.Args[0])
	case "len":
		v := arg(0)
		if p, ok := v.(CPtr); ok && !p.Nil {
			v = p.V
		}
		switch s := v.(type) {
		case CBytes:
			return big.NewInt(int64(len(s.B)))
		case CList:
			return big.NewInt(int64(len(s.L)))
		case CNilLit:
			return big.NewInt(0)
		}
		return c.unk("len of %T", v)
	case "int", "uint", "int64", "uint64":
		return arg(0)
	case "byte", "uint8":
		if i, ok := cint(arg(0)); ok {
			return new(big.Int).Mod(i, big.NewInt(256))
		}
	case "uint16":
		if i, ok := cint(arg(0)); ok {
			return new(big.Int).Mod(i, big.NewInt(65536))
		}
	case "uint32":
		if i, ok := cint(arg(0)); ok {
			return new(big.Int).Mod(i, new(big.Int).Lsh(big.NewInt(1), 32))
		}
	case "min", "max":
		a, ok1 := cint(arg(0))
		b, ok2 := cint(arg(1))
		if ok1 && ok2 {
			if (a.Cmp(b) <= 0) == (e.Fun == "min") {
				return a
			}
			return b
		}
	case "typeOf":
		if i, ok := arg(0).(CIface); ok {
			if i.Nil {
				return "<nil>"
			}
			return i.Type
		}
		if _, ok := arg(0).(CNilLit); ok {
			return "<nil>"
		}
	case "ascii":
		if b, ok := c.bytesOf(arg(0)); ok {
			for _, x := range b {
				if x > 127 {
					return false
				}
			}
			return true
		}
	case "isConst":
		t, ok := arg(0).(CType)
		v, ok2 := cint(arg(1))
		if ok && ok2 {
			for _, k := range c.e.constsOfType(t.T) {
				if v.Cmp(big.NewInt(k)) == 0 {
					return true
				}
			}
			return false
		}
	case "sumLen":
		l, ok := arg(0).(CList)
		k, ok2 := cint(arg(1))
		if ok && ok2 && k.IsInt64() && k.Int64() >= 0 && int(k.Int64()) <= len(l.L) {
			s := 0
			for i := 0; i < int(k.Int64()); i++ {
				b, ok := l.L[i].(CBytes)
				if !ok {
					return c.unk("sumLen element")
				}
				s += len(b.B)
			}
			return big.NewInt(int64(s))
		}
		if _, isNil := arg(0).(CNilLit); isNil {
			return big.NewInt(0)
		}
	case "fresh", "sameArray", "inside", "window", "unchanged", "tainted":
		return c.unk("%s is a representation predicate (not observable in a replay)", e.Fun)
	case "within":
		// necessary condition only: the inner slice cannot be longer than the outer
		a, ok1 := c.bytesOf(arg(0))
		b, ok2 := c.bytesOf(arg(1))
		if ok1 && ok2 && len(a) > len(b) {
			return false
		}
		return c.unk("within is a representation predicate")
	case "cap":
		return c.unk("cap not observable")
	}
	if sf, ok := c.e.specFuns[e.Fun]; ok && len(sf.Params) == len(e.Args) {
		n := *c
		n.cur = make(map[string]CV, len(c.cur)+len(sf.Params))
		for k, v := range c.cur {
			n.cur[k] = v
		}
		for i, p := range sf.Params {
			n.cur[p] = c.eval(e.Args[i])
		}
		return n.eval(sf.Body)
	}
	// conversion T(x)
	if v := c.ident(e.Fun); v != nil {
		if _, isT := v.(CType); isT && len(e.Args) == 1 {
			return arg(0)
		}
	}
	return c.unk("function %s not evaluable concretely", e.Fun)
}
