package main

import (
	"encoding/json"
	"flag"
	"fmt"
	"os"
	"path/filepath"
	"sort"
	"strings"
	"time"

	"golang.org/x/tools/go/ssa"
)

func (e *Engine) extraDecls(body string) []string { return nil }

type RunConfig struct {
	Repo, Spec, Work string
	Prop             string
	Tier             string
	Funcs            []string
	Timeout          time.Duration
	Workers          int
	Keep             bool
	Verbose          bool
}

type RunResult struct {
	Results   []*OblResult
	Funcs     []string
	Inlined   []string
	Errors    []string
	Solver    *Solver
	LoadSecs  float64
	GenSecs   float64
	SolveSecs float64
	Paths     int
}

func hasPropClause(c *Contract, prop string) bool {
	for _, p := range c.Props {
		if p == prop {
			return true
		}
	}
	chk := func(cls []*Clause) bool {
		for _, cl := range cls {
			for _, t := range cl.Tags {
				if t == prop {
					return true
				}
			}
		}
		return false
	}
	for _, sc := range c.Cases {
		if chk(sc.Requires) || chk(sc.Ensures) {
			return true
		}
	}
	for _, l := range c.Loops {
		if chk(l) {
			return true
		}
	}
	for _, cls := range c.Asserts {
		if chk(cls) {
			return true
		}
	}
	for _, td := range c.Taints {
		for _, t := range td.Tags {
			if t == prop {
				return true
			}
		}
	}
	return false
}

func (e *Engine) generate(cfg RunConfig) []string {
	var keys []string
	if len(cfg.Funcs) > 0 {
		keys = cfg.Funcs
	} else {
		for k, c := range e.contracts {
			if c.Kind == "func" && (hasPropClause(c, cfg.Prop) || (e.propAll[cfg.Prop] && c.Unverified == "")) {
				keys = append(keys, k)
			}
		}
	}
	sort.Strings(keys)
	if cfg.Prop != "" {
		e.curTags = map[string]bool{cfg.Prop: true}
	}
	done := map[string]bool{}
	var verified []string
	for len(keys) > 0 {
		k := keys[0]
		keys = keys[1:]
		if done[k] {
			continue
		}
		done[k] = true
		con := e.contracts[k]
		if con == nil {
			e.errors = append(e.errors, "no contract for "+k)
			continue
		}
		if con.Unverified != "" && len(cfg.Funcs) == 0 {
			e.noteAssumption("assumed contract of " + k + " (in-repo function, body not verified: " + con.Unverified + ")")
			continue
		}
		fn := e.funcsByK[k]
		if fn == nil {
			e.errors = append(e.errors, "contract for unknown function "+k+" ("+con.File+")")
			continue
		}
		if cfg.Verbose {
			fmt.Fprintf(os.Stderr, "  generating %s\n", k)
		}
		mark, errMark, pathMark := len(e.obls), len(e.errors), e.pathCount
		e.unkIdents = map[string]bool{}
		e.verifyFunction(fn, con)
		if len(e.unkIdents) > 0 && !e.noRebind {
			e.rebindLocals(cfg, fn, con, mark, errMark, pathMark)
		}
		verified = append(verified, k)
		// assume–guarantee closure: contracts used at call sites must be verified too
		if len(cfg.Funcs) == 0 {
			var more []string
			for ck, cc := range e.contracts {
				if cc.Kind == "func" && cc.UsedBy[k] && !done[ck] {
					more = append(more, ck)
				}
			}
			sort.Strings(more)
			keys = append(keys, more...)
		}
	}
	return verified
}

func run(cfg RunConfig) (*Engine, *RunResult, error) {
	e := newEngine()
	t0 := time.Now()
	if err := e.load(cfg.Repo, nil); err != nil {
		return nil, nil, fmt.Errorf("load: %w", err)
	}
	if err := e.loadContracts(cfg.Repo, cfg.Spec); err != nil {
		return nil, nil, fmt.Errorf("contracts: %w", err)
	}
	rr := &RunResult{LoadSecs: time.Since(t0).Seconds()}
	t1 := time.Now()
	rr.Funcs = e.generate(cfg)
	rr.GenSecs = time.Since(t1).Seconds()
	rr.Errors = e.errors
	rr.Paths = e.pathCount
	t2 := time.Now()
	s := newSolver(cfg.Work, cfg.Timeout)
	s.retry = true
	s.lastChance = 4 * cfg.Timeout
	s.keep = cfg.Keep
	rr.Solver = s
	rr.Results = e.dischargeAll(s, e.obls, cfg.Workers)
	rr.SolveSecs = time.Since(t2).Seconds()
	return e, rr, nil
}

func main() {
	var cfg RunConfig
	var fns string
	var jsonOut string
	flag.StringVar(&cfg.Repo, "repo", "/repo", "repository root")
	flag.StringVar(&cfg.Spec, "spec", "/verif/spec", "spec directory")
	flag.StringVar(&cfg.Work, "work", "/verif/work/tmp", "scratch directory")
	flag.StringVar(&cfg.Prop, "prop", "", "property id")
	flag.StringVar(&cfg.Tier, "tier", "quick", "quick|thorough")
	flag.StringVar(&fns, "fn", "", "comma-separated function keys (debug)")
	flag.DurationVar(&cfg.Timeout, "timeout", 10*time.Second, "per-query timeout")
	flag.IntVar(&cfg.Workers, "j", 14, "parallel solver jobs")
	flag.BoolVar(&cfg.Keep, "keep", false, "keep all SMT files")
	flag.BoolVar(&cfg.Verbose, "v", false, "verbose")
	flag.StringVar(&jsonOut, "json", "", "write raw results as JSON")
	list := flag.Bool("list", false, "list contracts and exit")
	var evidence, knownPath, basePath string
	var updBase bool
	var seed int64
	flag.StringVar(&evidence, "evidence", "", "evidence file to write (property mode)")
	flag.StringVar(&knownPath, "known", "/verif/known_findings.json", "known findings file")
	flag.StringVar(&basePath, "baseline", "/verif/baseline_obligations.json", "baseline obligations file")
	flag.BoolVar(&updBase, "update-baseline", false, "rewrite the baseline entry of this property from this run")
	flag.Int64Var(&seed, "seed", 0, "seed (recorded; the proof has no random choices)")
	flag.Parse()
	if cfg.Prop != "" && fns == "" && !*list {
		if cfg.Work == "/verif/work/tmp" {
			cfg.Work = "/verif/work/" + cfg.Prop
		}
		if cfg.Tier == "thorough" && cfg.Timeout == 10*time.Second {
			cfg.Timeout = 60 * time.Second
		}
		os.Exit(runProperty(cfg, evidence, knownPath, basePath, updBase, seed))
	}
	if fns != "" {
		cfg.Funcs = strings.Split(fns, ",")
	}
	if *list {
		e := newEngine()
		if err := e.load(cfg.Repo, nil); err != nil {
			fmt.Fprintln(os.Stderr, err)
			os.Exit(2)
		}
		if err := e.loadContracts(cfg.Repo, cfg.Spec); err != nil {
			fmt.Fprintln(os.Stderr, err)
			os.Exit(2)
		}
		var ks []string
		for k := range e.contracts {
			ks = append(ks, k)
		}
		sort.Strings(ks)
		for _, k := range ks {
			_, ok := e.funcsByK[k]
			fmt.Printf("%-60s %s resolved=%v\n", k, e.contracts[k].Kind, ok)
		}
		return
	}
	os.RemoveAll(cfg.Work)
	stop := startProfile()
	e, rr, err := run(cfg)
	stop()
	if err != nil {
		fmt.Fprintln(os.Stderr, "tqv:", err)
		os.Exit(2)
	}
	failed := 0
	proved := 0
	for _, r := range rr.Results {
		if r.Kind == "cover" {
			if r.Status == "proved" {
				fmt.Printf("VACUOUS  %s (precondition unsatisfiable)\n", r.Name)
				failed++
			}
			continue
		}
		if r.Status == "proved" {
			proved++
			if cfg.Verbose {
				fmt.Printf("ok       %s (%d paths, %d trivial)\n", r.Name, r.Paths, r.Trivial)
			}
		} else {
			failed++
			fmt.Printf("FAILED   %s [%s %s] %s @%s\n         %s\n", r.Name, r.Fail.Status, r.Fail.Solver, r.Desc, r.Pos, r.Fail.File)
		}
	}
	for _, er := range rr.Errors {
		fmt.Println("TOOL-ERROR", er)
	}
	{
		rs := append([]*OblResult{}, rr.Results...)
		sort.Slice(rs, func(i, j int) bool { return rs[i].Secs > rs[j].Secs })
		for i, r := range rs {
			if i >= 8 || r.Secs < 1.0 {
				break
			}
			fmt.Printf("SLOW     %.1fs %s (%s %s)\n", r.Secs, r.Name, r.SlowSolver, r.SlowFile)
		}
	}
	fmt.Printf("functions=%d obligations=%d proved=%d failed=%d paths=%d queries=%d load=%.1fs gen=%.1fs solve=%.1fs\n",
		len(rr.Funcs), len(rr.Results), proved, failed, rr.Paths, rr.Solver.nQueries, rr.LoadSecs, rr.GenSecs, rr.SolveSecs)
	if cfg.Verbose {
		var as []string
		for a := range e.assumpLog {
			as = append(as, a)
		}
		sort.Strings(as)
		for _, a := range as {
			fmt.Println("ASSUME", a)
		}
	}
	if jsonOut != "" {
		os.MkdirAll(filepath.Dir(jsonOut), 0o755)
		b, _ := json.MarshalIndent(rr.Results, "", " ")
		os.WriteFile(jsonOut, b, 0o644)
	}
	if len(rr.Errors) > 0 {
		os.Exit(2)
	}
	if failed > 0 {
		os.Exit(1)
	}
}

var _ = ssa.GlobalDebug
