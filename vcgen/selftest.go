package main

// Must-fail self test: each canary is a property-breaking edit applied in memory
// (go/packages overlay — no scratch tree); the named obligations must fail.

import (
	"encoding/json"
	"fmt"
	"os"
	"path/filepath"
	"strings"
	"time"
)

type Canary struct {
	Name     string   `json:"name"`
	Property string   `json:"property"`
	File     string   `json:"file"`
	Find     string   `json:"find"`
	Replace  string   `json:"replace"`
	Find2    string   `json:"find2,omitempty"` // optional second site in the same file (cooperating edits)
	Replace2 string   `json:"replace2,omitempty"`
	Funcs    []string `json:"funcs"`
	Expect   []string `json:"expect"`
	Why      string   `json:"why"`
}

// runSelftest returns the number of canaries that did NOT make their obligation fail.
func runSelftest(cfg RunConfig, file string, max int) (ran, missed int) {
	var cs []Canary
	if !loadJSON(file, &cs) {
		fmt.Fprintln(os.Stderr, "selftest: cannot read", file)
		return 0, 1
	}
	for _, c := range cs {
		if c.Property != cfg.Prop {
			continue
		}
		if max > 0 && ran >= max {
			break
		}
		ran++
		path := filepath.Join(cfg.Repo, c.File)
		src, err := os.ReadFile(path)
		if err != nil || !strings.Contains(string(src), c.Find) {
			// the code the canary edits has changed: the canary cannot be applied (not an error of
			// the tree under check; on the unchanged tree this line means the corpus needs updating)
			fmt.Printf("SELFTEST %s: STALE (pattern not found in %s)\n", c.Name, c.File)
			ran--
			continue
		}
		mut := strings.Replace(string(src), c.Find, c.Replace, 1)
		if c.Find2 != "" {
			if !strings.Contains(mut, c.Find2) {
				fmt.Printf("SELFTEST %s: STALE (second pattern not found in %s)\n", c.Name, c.File)
				ran--
				continue
			}
			mut = strings.Replace(mut, c.Find2, c.Replace2, 1)
		}
		e := newEngine()
		if err := e.load(cfg.Repo, map[string][]byte{path: []byte(mut)}); err != nil {
			fmt.Printf("SELFTEST %s: mutant does not load: %v\n", c.Name, err)
			missed++
			continue
		}
		if err := e.loadContracts(cfg.Repo, cfg.Spec); err != nil {
			fmt.Printf("SELFTEST %s: %v\n", c.Name, err)
			missed++
			continue
		}
		c2 := cfg
		c2.Funcs = c.Funcs
		c2.Work = filepath.Join(cfg.Work, "selftest_"+c.Name)
		os.MkdirAll(c2.Work, 0o755)
		e.generate(c2)
		s := newSolver(c2.Work, 5*time.Second)
		res := e.dischargeAll(s, e.obls, cfg.Workers)
		failed := map[string]bool{}
		for _, r := range res {
			if r.Kind != "cover" && r.Status != "proved" {
				failed[r.Name] = true
			}
		}
		ok := true
		for _, want := range c.Expect {
			hit := false
			for n := range failed {
				if strings.HasPrefix(n, want) {
					hit = true
				}
			}
			if !hit {
				ok = false
			}
		}
		os.RemoveAll(c2.Work)
		if ok {
			fmt.Printf("SELFTEST %s: ok (mutant detected: %s)\n", c.Name, strings.Join(c.Expect, ", "))
		} else {
			fmt.Printf("SELFTEST %s: MISSED — %s; expected failing %v, failing were %v\n", c.Name, c.Why, c.Expect, keys(failed))
			missed++
		}
	}
	return ran, missed
}

func keys(m map[string]bool) []string {
	var out []string
	for k := range m {
		out = append(out, k)
	}
	return out
}

var _ = json.Marshal
