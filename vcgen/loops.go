package main

import (
	"fmt"
	"go/ast"
	"go/token"
	"go/types"
	"strings"

	"golang.org/x/tools/go/ssa"
)

// writeTarget: a location possibly written inside a loop.
type writeTarget struct {
	ptr   *PtrV // sub-location of an object
	whole *Obj  // entire object content (arrays)
	ghost string
}

// havocLoop replaces everything the loop may modify by fresh values.
func (e *Engine) havocLoop(fr *Frame, st *State, head *ssa.BasicBlock, phis []*ssa.Phi, blocks map[int]bool) {
	// heap targets first (they are resolved against the entry state)
	var targets []writeTarget
	resolve := func(v ssa.Value) (Value, bool) {
		switch x := v.(type) {
		case *ssa.Const, *ssa.Global, *ssa.Function:
			return e.val(fr, st, x), true
		}
		r, ok := fr.env[v]
		return r, ok
	}
	seen := map[*ssa.Function]bool{}
	e.collectWrites(fr, st, fr.fn, blocks, resolve, &targets, seen, 0)
	if fr.con != nil {
		// auxiliary ghosts assigned by `after` statements of this contract
		for _, as := range fr.con.Afters {
			if hasTag(as.Tags, e.curTags) && e.regionCalls(fr.fn, blocks, as.Callee) {
				targets = append(targets, writeTarget{ghost: as.Ghost})
			}
		}
	}
	e.symMode++
	defer func() { e.symMode-- }()
	for _, t := range targets {
		switch {
		case t.ghost != "":
			st.ghost[t.ghost] = e.freshGhost(st, t.ghost)
		case t.whole != nil:
			old, _ := e.heapGet(st, t.whole).(ArrV)
			st.heap[t.whole] = e.freshArr(st, old.Elem, t.whole.Name+"_loop")
		case t.ptr != nil:
			if mt, isMap := under(t.ptr.Obj.T).(*types.Map); isMap && len(t.ptr.Path) == 0 {
				card := e.freshVar("loop_card", SInt)
				st.assume(Le(Num(0), card))
				st.assume(Le(card, NumB(maxLen)))
				st.heap[t.ptr.Obj] = MapC{KeySort: SInt, Dom: e.freshVar("loop_dom", SSet), Card: card, ValT: mt.Elem(), RestID: e.freshName("loop_rest")}
				continue
			}
			if mv, isMap := e.loadPtr(st, *t.ptr).(MapV); isMap && mv.Obj != nil {
				card := e.freshVar("loop_card", SInt)
				st.assume(Le(Num(0), card))
				st.assume(Le(card, NumB(maxLen)))
				st.heap[mv.Obj] = MapC{KeySort: SInt, Dom: e.freshVar("loop_dom", SSet), Card: card, ValT: mv.T.Elem(), RestID: e.freshName("loop_rest")}
				continue
			}
			e.storePtr(st, *t.ptr, e.fresh(st, t.ptr.Elem, "loop_"+t.ptr.Obj.Name))
		}
	}
	// source variables assigned inside the loop but not carried by a phi (dead after the
	// assignment as far as SSA is concerned) have an unknown value at the head
	phiNames := map[string]bool{}
	for _, p := range phis {
		phiNames[p.Comment] = true
	}
	for _, b := range fr.fn.Blocks {
		if !blocks[b.Index] {
			continue
		}
		for _, ins := range b.Instrs {
			if d, ok := ins.(*ssa.DebugRef); ok && !d.IsAddr {
				id, isID := d.Expr.(*ast.Ident)
				if !isID || phiNames[id.Name] {
					continue
				}
				if vi, isInstr := d.X.(ssa.Instruction); isInstr && vi.Block() != nil && blocks[vi.Block().Index] {
					if _, isAddr := st.vars[id.Name].(varAddr); !isAddr {
						delete(st.vars, id.Name)
					}
				}
			}
		}
	}
	for _, p := range phis {
		name := p.Comment
		if name == "" {
			name = p.Name()
		}
		v := e.fresh(st, p.Type(), "loop_"+name)
		fr.env[p] = v
		if p.Comment != "" {
			st.vars[p.Comment] = v
		}
	}
}

// collectWrites scans the instructions of fn (restricted to blocks if non-nil).
func (e *Engine) collectWrites(fr *Frame, st *State, fn *ssa.Function, blocks map[int]bool, resolve func(ssa.Value) (Value, bool), out *[]writeTarget, seen map[*ssa.Function]bool, depth int) {
	if depth > 8 {
		e.toolError("loop frame analysis: call depth exceeded in %s", funcKey(fn))
		return
	}
	// addrOf resolves an address expression to a pointer value, following
	// FieldAddr/IndexAddr chains defined inside the scanned region.
	var addrOf func(v ssa.Value) (PtrV, bool, bool) // ptr, wholeArray, ok
	addrOf = func(v ssa.Value) (PtrV, bool, bool) {
		if r, ok := resolve(v); ok {
			switch p := r.(type) {
			case PtrV:
				return p, false, true
			case varAddr:
				return p.P, false, true
			}
		}
		switch x := v.(type) {
		case *ssa.FieldAddr:
			p, whole, ok := addrOf(x.X)
			if ok && p.Obj == nil {
				return PtrV{}, false, true // field of an object allocated inside the region
			}
			if !ok {
				return PtrV{}, false, false
			}
			if whole {
				return p, true, true
			}
			stt, isStruct := under(p.Elem).(*types.Struct)
			if !isStruct {
				return PtrV{}, false, false
			}
			return PtrV{Obj: p.Obj, Path: append(append([]interface{}{}, p.Path...), x.Field), Nil: TFalse, Elem: stt.Field(x.Field).Type()}, false, true
		case *ssa.IndexAddr:
			// element of slice or array: whole backing object
			if r, ok := resolve(x.X); ok {
				switch s := r.(type) {
				case SliceV:
					if s.Obj == nil {
						return PtrV{}, false, false
					}
					return PtrV{Obj: s.Obj, Nil: TFalse, Elem: s.Elem}, true, true
				case PtrV:
					return s, true, true
				}
			}
			// slice loaded inside the region: find where it was loaded from
			if s, ok := e.sliceObjOf(fr, st, x.X, resolve, addrOf); ok {
				return PtrV{Obj: s, Nil: TFalse}, true, true
			}
			p, _, ok := addrOf(x.X)
			if ok {
				return p, true, true
			}
		case *ssa.Alloc:
			// allocation inside the region: fresh each iteration, not a loop target
			return PtrV{}, false, true
		}
		return PtrV{}, false, false
	}
	add := func(p PtrV, whole bool) {
		if p.Obj == nil {
			return
		}
		if whole || p.Obj.IsArr {
			*out = append(*out, writeTarget{whole: p.Obj})
			return
		}
		// drop index components: havoc the enclosing array-valued field
		path := p.Path
		for i, c := range path {
			if _, isIdx := c.(*Term); isIdx {
				path = path[:i]
				break
			}
		}
		elem := p.Elem
		if len(path) != len(p.Path) {
			elem = pathType(p.Obj.T, path)
		}
		q := PtrV{Obj: p.Obj, Path: path, Nil: TFalse, Elem: elem}
		*out = append(*out, writeTarget{ptr: &q})
	}
	for _, b := range fn.Blocks {
		if blocks != nil && !blocks[b.Index] {
			continue
		}
		for _, ins := range b.Instrs {
			switch x := ins.(type) {
			case *ssa.Store:
				p, whole, ok := addrOf(x.Addr)
				if !ok {
					e.toolError("loop frame analysis: cannot resolve store target %s in %s", x.Addr.Name(), funcKey(fn))
					continue
				}
				add(p, whole)
			case *ssa.MapUpdate:
				if r, ok := resolve(x.Map); ok {
					if m, isMap := r.(MapV); isMap && m.Obj != nil {
						q := PtrV{Obj: m.Obj, Nil: TFalse, Elem: m.Obj.T}
						*out = append(*out, writeTarget{ptr: &q})
					}
				} else if ld, isLoad := x.Map.(*ssa.UnOp); isLoad && ld.Op == token.MUL {
					// the map is loaded inside the region from a location that exists before it
					// (a field of a parameter, say): the map stored there is the one updated
					if p, _, ok := addrOf(ld.X); ok && p.Obj != nil {
						if m, isMap := e.loadPtr(st, p).(MapV); isMap && m.Obj != nil {
							q := PtrV{Obj: m.Obj, Nil: TFalse, Elem: m.Obj.T}
							*out = append(*out, writeTarget{ptr: &q})
						}
					} else {
						e.toolError("loop frame analysis: cannot resolve map in %s", funcKey(fn))
					}
				} else {
					e.toolError("loop frame analysis: cannot resolve map in %s", funcKey(fn))
				}
			case *ssa.Send:
				*out = append(*out, writeTarget{ghost: "sends"})
			case *ssa.Next:
				if !x.IsString {
					*out = append(*out, writeTarget{ghost: "rangecount"})
				}
			case ssa.CallInstruction:
				if g, isGo := x.(*ssa.Go); isGo {
					if gf, ok := g.Common().Value.(*ssa.Function); ok {
						if con := e.contracts[funcKey(gf)]; con != nil {
							for _, gi := range con.GhostInc {
								*out = append(*out, writeTarget{ghost: gi})
							}
						}
					}
					continue
				}
				e.collectCallWrites(fr, st, fn, x, resolve, addrOf, out, seen, depth)
			}
		}
	}
}

func pathType(t types.Type, path []interface{}) types.Type {
	for _, c := range path {
		if f, ok := c.(int); ok {
			t = under(t).(*types.Struct).Field(f).Type()
		}
	}
	return t
}

// sliceObjOf: backing object of a slice-valued SSA value computed in the region.
func (e *Engine) sliceObjOf(fr *Frame, st *State, v ssa.Value, resolve func(ssa.Value) (Value, bool), addrOf func(ssa.Value) (PtrV, bool, bool)) (*Obj, bool) {
	switch x := v.(type) {
	case *ssa.UnOp: // load of a slice from memory
		p, _, ok := addrOf(x.X)
		if ok && p.Obj != nil {
			if s, isSlice := e.loadPtr(st, p).(SliceV); isSlice && s.Obj != nil {
				return s.Obj, true
			}
		}
	case *ssa.Slice:
		if r, ok := resolve(x.X); ok {
			if s, isSlice := r.(SliceV); isSlice && s.Obj != nil {
				return s.Obj, true
			}
		}
		return e.sliceObjOf(fr, st, x.X, resolve, addrOf)
	case *ssa.ChangeType:
		if r, ok := resolve(x.X); ok {
			if s, isSlice := r.(SliceV); isSlice && s.Obj != nil {
				return s.Obj, true
			}
		}
		return e.sliceObjOf(fr, st, x.X, resolve, addrOf)
	case *ssa.Phi:
		if r, ok := resolve(x); ok {
			if s, isSlice := r.(SliceV); isSlice && s.Obj != nil {
				return s.Obj, true
			}
		}
	}
	return nil, false
}

func (e *Engine) collectCallWrites(fr *Frame, st *State, fn *ssa.Function, ci ssa.CallInstruction, resolve func(ssa.Value) (Value, bool), addrOf func(ssa.Value) (PtrV, bool, bool), out *[]writeTarget, seen map[*ssa.Function]bool, depth int) {
	c := ci.Common()
	// argument resolver: value if known, else pointer through address chains
	var argVal func(v ssa.Value) (Value, bool)
	argVal = func(v ssa.Value) (Value, bool) {
		if r, ok := resolve(v); ok {
			return r, true
		}
		if p, _, ok := addrOf(v); ok && p.Obj != nil {
			return p, true
		}
		// values boxed or converted inside the loop from values that exist before it: the
		// object behind them is NOT loop-local (a response allocated once per connection and
		// wrapped into an interface per request, say)
		switch x := v.(type) {
		case *ssa.MakeInterface:
			if r, ok := argVal(x.X); ok {
				return IfaceV{Dyn: x.X.Type(), V: r}, true
			}
		case *ssa.ChangeType:
			return argVal(x.X)
		case *ssa.ChangeInterface:
			return argVal(x.X)
		}
		return nil, false
	}
	var callee *ssa.Function
	var bound []ssa.Value
	if c.IsInvoke() {
		// interface method: contract's modifies clause, if any
		recv, _ := resolve(c.Value)
		keys := []string{ifaceKey(c.Value.Type(), c.Method.Name())}
		if iv, ok := recv.(IfaceV); ok && iv.Sym == nil && iv.Dyn != nil {
			if m := e.prog.LookupMethod(iv.Dyn, c.Method.Pkg(), c.Method.Name()); m != nil {
				callee = m
			}
		}
		if callee == nil {
			for _, k := range keys {
				if con := e.ifaceCon[k]; con != nil {
					e.contractWrites(st, con, append([]ssa.Value{c.Value}, c.Args...), argVal, out)
					return
				}
			}
			return // no contract: assumed to have no effect on modelled memory (same as at the call)
		}
	} else {
		switch f := c.Value.(type) {
		case *ssa.Function:
			callee = f
		case *ssa.MakeClosure:
			callee = f.Fn.(*ssa.Function)
			bound = f.Bindings
		case *ssa.Builtin:
			if f.Name() == "copy" {
				if r, ok := resolve(c.Args[0]); ok {
					if s, isSlice := r.(SliceV); isSlice && s.Obj != nil {
						*out = append(*out, writeTarget{whole: s.Obj})
					}
				} else {
					e.toolError("loop frame analysis: copy target unknown")
				}
			}
			if f.Name() == "delete" {
				if r, ok := resolve(c.Args[0]); ok {
					if m, isMap := r.(MapV); isMap && m.Obj != nil {
						q := PtrV{Obj: m.Obj, Nil: TFalse, Elem: m.Obj.T}
						*out = append(*out, writeTarget{ptr: &q})
					}
				}
			}
			return
		default:
			if r, ok := resolve(c.Value); ok {
				if fv, isF := r.(FuncV); isF {
					if f2, isFn := fv.Fn.(*ssa.Function); isFn {
						callee = f2
					}
				}
			}
			if callee == nil {
				return // unknown function value: no effect assumed (as at the call)
			}
		}
	}
	key := funcKey(callee)
	if con := e.contracts[key]; con != nil && !con.Inline() {
		args := c.Args
		if c.IsInvoke() {
			args = append([]ssa.Value{c.Value}, c.Args...)
		}
		e.contractWrites(st, con, args, argVal, out)
		return
	}
	if len(callee.Blocks) == 0 || !(inRepo(callee) || (callee.Pkg != nil && inlineStdPkgs[callee.Pkg.Pkg.Path()])) {
		return // external: no effect assumed
	}
	if seen[callee] {
		return
	}
	seen[callee] = true
	defer delete(seen, callee)
	// map callee parameters to caller values
	pm := map[ssa.Value]Value{}
	args := c.Args
	for i, p := range callee.Params {
		var av ssa.Value
		if c.IsInvoke() {
			if i == 0 {
				// receiver payload
				if r, ok := resolve(c.Value); ok {
					if iv, isI := r.(IfaceV); isI && iv.Sym == nil {
						pm[p] = iv.V
					}
				}
				continue
			}
			av = args[i-1]
		} else if i < len(args) {
			av = args[i]
		}
		if av != nil {
			if r, ok := argVal(av); ok {
				pm[p] = r
			}
		}
	}
	for i, fv := range callee.FreeVars {
		if i < len(bound) {
			if r, ok := argVal(bound[i]); ok {
				pm[fv] = r
			}
		}
	}
	inner := func(v ssa.Value) (Value, bool) {
		switch x := v.(type) {
		case *ssa.Const, *ssa.Global, *ssa.Function:
			return e.val(fr, st, x), true
		}
		r, ok := pm[v]
		return r, ok
	}
	e.collectWrites(fr, st, callee, nil, inner, out, seen, depth+1)
}

func (e *Engine) contractWrites(st *State, con *Contract, args []ssa.Value, argVal func(ssa.Value) (Value, bool), out *[]writeTarget) {
	for _, g := range con.GhostInc {
		*out = append(*out, writeTarget{ghost: g})
	}
	for _, g := range con.GhostIncSite {
		*out = append(*out, writeTarget{ghost: g})
	}
	for g := range con.GhostSet {
		*out = append(*out, writeTarget{ghost: g})
	}
	if len(con.Modifies) == 0 {
		return
	}
	ctx := e.ctxFor(st, nil, con, con.Key).soft()
	ctx.noVars = true
	unbound := map[string]bool{}
	for i, name := range con.Params {
		if i < len(args) {
			if r, ok := argVal(args[i]); ok {
				ctx.bind[name] = r
			} else {
				unbound[name] = true // computed inside the loop: a loop-local object
			}
		}
	}
	for _, m := range con.Modifies {
		local := false
		for n := range unbound {
			if exprMentions(m, n) {
				local = true
			}
		}
		if local {
			continue
		}
		l, ok := ctx.loc(m)
		if !ok {
			e.toolError("loop frame analysis: cannot resolve modifies %s of %s", exprStr(m), con.Key)
			continue
		}
		switch {
		case l.Ghost != "":
			*out = append(*out, writeTarget{ghost: l.Ghost})
		case l.Ptr != nil:
			*out = append(*out, writeTarget{ptr: l.Ptr})
		case l.All != nil && l.All.Obj != nil:
			*out = append(*out, writeTarget{whole: l.All.Obj})
		}
	}
}

// ---------- invariants ----------

func (e *Engine) invCtx(fr *Frame, st *State) *EvalCtx {
	key := funcKey(fr.fn)
	ctx := e.ctxFor(st, fr.old, fr.con, key)
	for k, v := range fr.bind {
		ctx.bind[k] = v
	}
	ctx.setVar = func(name string, v Value) bool {
		if v == nil {
			return false
		}
		for val := range fr.env {
			if p, ok := val.(*ssa.Phi); ok && p.Comment == name {
				fr.env[p] = v
				st.vars[name] = v
				return true
			}
		}
		return false
	}
	return ctx
}

func (e *Engine) checkInvariant(fr *Frame, st *State, ord int, inv []*Clause, which string) {
	ctx := e.invCtx(fr, st)
	for _, cl := range inv {
		if !hasTag(cl.Tags, e.curTags) || (cl.Case != 0 && cl.Case != e.curCase) {
			continue
		}
		g, note := ctx.goal(cl.E)
		name := fmt.Sprintf("%s/inv%d.%s%s#%d", e.curFn, ord, which, fr.callPath, cl.Ord)
		if note != "" && e.dropHints[funcKey(fr.fn)] {
			// a proof hint that names something the code no longer has: not used (rebind.go)
			e.addObl(st, name, "inv", cl.Tags, TTrue, "loop invariant ("+which+"): "+cl.Text+" [hint not used: it names a local the code no longer has]", fmt.Sprintf("%s:%d", shortFile(cl.File), cl.Line))
			continue
		}
		e.addObl(st, name, "inv", cl.Tags, g, "loop invariant ("+which+"): "+cl.Text+note, fmt.Sprintf("%s:%d", shortFile(cl.File), cl.Line))
	}
}

func (e *Engine) assumeInvariant(fr *Frame, st *State, ord int, inv []*Clause) {
	ctx := e.invCtx(fr, st)
	for _, cl := range inv {
		if cl.Case != 0 && cl.Case != e.curCase {
			continue
		}
		if e.dropHints[funcKey(fr.fn)] {
			if _, note := ctx.goal(cl.E); note != "" {
				continue
			}
		}
		ctx.assume(cl.E)
	}
}

func shortFile(f string) string {
	for _, pre := range []string{"/repo/", "/verif/"} {
		if len(f) > len(pre) && f[:len(pre)] == pre {
			return f[len(pre):]
		}
	}
	return f
}

// regionCalls: does the loop region (or anything it may inline) contain a call whose callee
// key ends with suffix? Conservative: unknown callees count as a match.
func (e *Engine) regionCalls(fn *ssa.Function, blocks map[int]bool, suffix string) bool {
	for _, b := range fn.Blocks {
		if blocks != nil && !blocks[b.Index] {
			continue
		}
		for _, ins := range b.Instrs {
			var c *ssa.CallCommon
			switch x := ins.(type) {
			case *ssa.Call:
				c = x.Common()
			case *ssa.Defer:
				c = x.Common()
			case *ssa.Go:
				c = x.Common()
			}
			if c == nil {
				continue
			}
			if c.IsInvoke() {
				if strings.HasSuffix(ifaceKey(c.Value.Type(), c.Method.Name()), suffix) {
					return true
				}
				continue
			}
			callee := c.StaticCallee()
			if callee == nil {
				return true // call through a function value: may reach anything
			}
			if strings.HasSuffix(funcKey(callee), suffix) {
				return true
			}
			// an in-repo callee without a contract is inlined: look inside (one level is enough
			// for the wrappers in this code base; deeper nesting is treated as a match)
			if e.contracts[funcKey(callee)] == nil && len(callee.Blocks) > 0 && inRepo(callee) {
				for _, cb := range callee.Blocks {
					for _, ci := range cb.Instrs {
						if cc, ok := ci.(ssa.CallInstruction); ok {
							k := cc.Common()
							if k.IsInvoke() {
								if strings.HasSuffix(ifaceKey(k.Value.Type(), k.Method.Name()), suffix) {
									return true
								}
							} else if sc := k.StaticCallee(); sc == nil || strings.HasSuffix(funcKey(sc), suffix) || (e.contracts[funcKey(sc)] == nil && inRepo(sc) && len(sc.Blocks) > 0) {
								return true
							}
						}
					}
				}
			}
		}
	}
	return false
}
