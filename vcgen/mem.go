package main

import (
	"fmt"
	"go/constant"
	"go/types"
	"math/big"
)

var emptyArr = ConstArr(SArrB, Num(0))

func emptyStr() StrV { return StrV{Arr: emptyArr, Off: Num(0), Len: Num(0)} }

func strTerm(s StrV) *Term {
	return App("tq_mkstr", SStr, s.Arr, s.Off, s.Len)
}

func strFromTerm(t *Term) StrV {
	if t.Op == "tq_mkstr" {
		return StrV{Arr: t.Args[0], Off: t.Args[1], Len: t.Args[2]}
	}
	ln := App("tq_slen", SInt, t)
	ln.Hi = maxLen
	return StrV{Arr: App("tq_sarr", SArrB, t), Off: App("tq_soff", SInt, t), Len: ln}
}

// constStr builds a string literal.
func constStr(s string) StrV {
	arr := emptyArr
	if len(s) <= 96 {
		for i := 0; i < len(s); i++ {
			arr = Store(arr, Num(int64(i)), Num(int64(s[i])))
		}
	} else {
		h := 0
		for i := 0; i < len(s); i++ {
			h = h*31 + int(s[i])
			h &= 0xffffff
		}
		arr = Var(fmt.Sprintf("tq_lit_%d_%x", len(s), h), SArrB)
	}
	lit := s
	return StrV{Arr: arr, Off: Num(0), Len: Num(int64(len(s))), Lit: &lit}
}

// elemToTerm / elemFromTerm convert between executor values and SMT array elements.
var theEngine *Engine

func elemToTerm(v Value) *Term {
	switch x := v.(type) {
	case *Term:
		return x
	case StrV:
		return strTerm(x)
	case IfaceV:
		return theEngine.ifaceRef(x)
	case PtrV:
		return theEngine.ptrRef(x)
	}
	panic(fmt.Sprintf("elemToTerm: %T", v))
}

var nilRef = Var("tq_nilref", SRef)

// ifaceRef gives an interface value an identity term usable as an array element.
func (e *Engine) ifaceRef(x IfaceV) *Term {
	if x.Sym != nil {
		return x.Sym.Ref
	}
	if x.Dyn == nil {
		return nilRef
	}
	r := e.freshVar("ifc", SRef)
	e.refPayload[r] = x
	e.refFactsBy[r.VarName()] = []*Term{Not(App("tq_isnil", SBool, r)), Eq(App("tq_tag", SInt, r), Num(int64(e.typeID(x.Dyn))))}
	return r
}

// ptrRef gives a pointer to an external struct (isExternalPtr) an identity term usable as an
// array element: one ref per pointee object, nil-ness tied to the pointer's own.
func (e *Engine) ptrRef(x PtrV) *Term {
	if x.Obj == nil {
		if x.Nil != TTrue {
			e.toolError("pointer without pointee stored in a slice")
		}
		return nilRef
	}
	if len(x.Path) != 0 {
		e.toolError("interior pointer stored in a slice of external pointers")
	}
	if r, ok := e.ptrRefByObj[x.Obj]; ok {
		return r
	}
	r := e.freshVar("ptr", SRef)
	e.ptrRefByObj[x.Obj] = r
	e.ptrByRef[r] = x
	e.refFactsBy[r.VarName()] = []*Term{Iff(App("tq_isnil", SBool, r), x.Nil)}
	return r
}

// ptrFromRef: the pointer an element term of such an array stands for. An element the executor
// has not stored itself (symbolic content) gets one pointee object per element term.
func (e *Engine) ptrFromRef(r *Term, t types.Type) PtrV {
	pt := under(t).(*types.Pointer)
	if r == nilRef {
		return PtrV{Nil: TTrue, Elem: pt.Elem()}
	}
	if p, ok := e.ptrByRef[r]; ok {
		return p
	}
	o := e.newObj("elemptr", pt.Elem(), false)
	p := PtrV{Obj: o, Nil: App("tq_isnil", SBool, r), Elem: pt.Elem()}
	e.ptrByRef[r] = p
	e.ptrRefByObj[o] = r
	e.symElemObj[o] = true
	return p
}

func (e *Engine) ifaceFromRef(r *Term, t types.Type) IfaceV {
	if r == nilRef {
		return IfaceV{}
	}
	if c, ok := e.refPayload[r]; ok {
		return c
	}
	if s, ok := e.symByRef[r]; ok {
		return IfaceV{Sym: s}
	}
	e.nVar++
	s := &SymIface{ID: e.nVar, Name: "elem", T: t, Ref: r, Nil: App("tq_isnil", SBool, r), Tag: App("tq_tag", SInt, r), Cases: map[string]Value{}}
	e.symByRef[r] = s
	return IfaceV{Sym: s}
}

func elemFromTerm(t *Term, elem types.Type) Value {
	if isString(elem) {
		return strFromTerm(t)
	}
	if _, ok := under(elem).(*types.Interface); ok {
		return theEngine.ifaceFromRef(t, elem)
	}
	if isExternalPtr(elem) {
		return theEngine.ptrFromRef(t, elem)
	}
	if isInteger(elem) && t.Op == "select" {
		if isUnsigned(elem) {
			_, hi := intRange(elem)
			t.Hi = hi
		}
	}
	return t
}

func (e *Engine) zero(t types.Type) Value {
	switch u := under(t).(type) {
	case *types.Basic:
		switch {
		case u.Info()&types.IsBoolean != 0:
			return TFalse
		case u.Info()&types.IsInteger != 0:
			return Num(0)
		case u.Info()&types.IsString != 0:
			return emptyStr()
		}
		return OpaqueV{Ref: Var("tq_zero_"+sanitize(typeStr(t)), SRef), T: t}
	case *types.Pointer:
		return PtrV{Nil: TTrue, Elem: u.Elem()}
	case *types.Slice:
		return SliceV{Off: Num(0), Len: Num(0), Cap: Num(0), Nil: TTrue, Elem: u.Elem()}
	case *types.Struct:
		sv := StructV{T: u, F: make([]Value, u.NumFields())}
		for i := range sv.F {
			sv.F[i] = e.zero(u.Field(i).Type())
		}
		return sv
	case *types.Array:
		return e.zeroArr(u.Elem())
	case *types.Interface:
		return IfaceV{}
	case *types.Signature:
		return FuncV{Nil: TTrue, Sig: u}
	case *types.Map:
		return MapV{Nil: TTrue, T: u}
	}
	return OpaqueV{Ref: Var("tq_zero_"+sanitize(typeStr(t)), SRef), T: t}
}

func (e *Engine) zeroArr(elem types.Type) ArrV {
	av := ArrV{Elem: elem, Conc: map[int64]Value{}}
	switch elemArrSort(elem) {
	case SArrB:
		av.Base = emptyArr
	case SArrS:
		av.Base = ConstArr(SArrS, strTerm(emptyStr()))
	case SArrR:
		av.Base = ConstArr(SArrR, nilRef)
	}
	return av
}

func (a ArrV) get(e *Engine, st *State, idx *Term) Value {
	if a.Base != nil {
		return elemFromTerm(Select(a.Base, idx), a.Elem)
	}
	if k, ok := idx.Int64(); ok {
		if v, ok := a.Conc[k]; ok {
			return v
		}
		if a.Conc != nil {
			if _, isZero := a.Conc[-1]; isZero {
				return e.zero(a.Elem)
			}
		}
	}
	// unknown element of a non-SMT array: fresh symbolic value
	return e.fresh(st, a.Elem, "elem")
}

func (a ArrV) set(idx *Term, v Value) (ArrV, bool) {
	if a.Base != nil {
		return ArrV{Elem: a.Elem, Base: Store(a.Base, idx, elemToTerm(v))}, true
	}
	k, ok := idx.Int64()
	if !ok {
		return a, false
	}
	n := ArrV{Elem: a.Elem, Conc: make(map[int64]Value, len(a.Conc)+1)}
	for kk, vv := range a.Conc {
		n.Conc[kk] = vv
	}
	n.Conc[k] = v
	return n, true
}

// zeroConc marks a Conc-only array as zero-initialised.
func (a ArrV) markZero() ArrV {
	if a.Base == nil {
		a.Conc[-1] = true
	}
	return a
}

// ---------- navigation ----------

func (e *Engine) navGet(st *State, v Value, path []interface{}) Value {
	for _, p := range path {
		switch k := p.(type) {
		case int:
			v = v.(StructV).F[k]
		case *Term:
			v = v.(ArrV).get(e, st, k)
		}
	}
	return v
}

func (e *Engine) navSet(st *State, v Value, path []interface{}, nv Value) Value {
	if len(path) == 0 {
		return nv
	}
	switch k := path[0].(type) {
	case int:
		sv := v.(StructV)
		f := make([]Value, len(sv.F))
		copy(f, sv.F)
		f[k] = e.navSet(st, sv.F[k], path[1:], nv)
		return StructV{T: sv.T, F: f}
	case *Term:
		av := v.(ArrV)
		inner := nv
		if len(path) > 1 {
			inner = e.navSet(st, av.get(e, st, k), path[1:], nv)
		}
		r, ok := av.set(k, inner)
		if !ok {
			e.toolError("store to symbolic index of an array of %s (not modelled)", typeStr(av.Elem))
		}
		return r
	}
	panic("navSet")
}

func (e *Engine) loadPtr(st *State, p PtrV) Value {
	if p.Obj == nil {
		e.toolError("load through nil/unknown pointer")
		return e.fresh(st, p.Elem, "badload")
	}
	return e.navGet(st, e.heapGet(st, p.Obj), p.Path)
}

func (e *Engine) storePtr(st *State, p PtrV, v Value) {
	if p.Obj == nil {
		e.toolError("store through nil/unknown pointer")
		return
	}
	st.heap[p.Obj] = e.navSet(st, e.heapGet(st, p.Obj), p.Path, v)
}

// ---------- constants ----------

func (e *Engine) constValue(t types.Type, val constant.Value) Value {
	if val == nil {
		return e.zero(t)
	}
	switch {
	case isBool(t):
		return Bool(constant.BoolVal(val))
	case isInteger(t):
		if val.Kind() == constant.Int {
			if i, ok := constant.Int64Val(val); ok {
				return Num(i)
			}
			if u, ok := constant.Uint64Val(val); ok {
				return NumB(new(big.Int).SetUint64(u))
			}
		}
		if f, ok := constant.Int64Val(constant.ToInt(val)); ok {
			return Num(f)
		}
	case isString(t):
		return constStr(constant.StringVal(val))
	}
	return OpaqueV{Ref: Var("tq_const_"+sanitize(val.ExactString()), SRef), T: t}
}

// ---------- merging ----------

// mergeValues builds ite(c, a, b) when the two values have compatible shape.
func (e *Engine) mergeValues(c *Term, a, b Value) (Value, bool) {
	switch x := a.(type) {
	case nil:
		if b == nil {
			return nil, true
		}
		return nil, false
	case *Term:
		y, ok := b.(*Term)
		if !ok || x.Sort != y.Sort {
			return nil, false
		}
		return Ite(c, x, y), true
	case StrV:
		y, ok := b.(StrV)
		if !ok {
			return nil, false
		}
		return StrV{Arr: Ite(c, x.Arr, y.Arr), Off: Ite(c, x.Off, y.Off), Len: Ite(c, x.Len, y.Len), Taint: x.Taint | y.Taint}, true
	case SliceV:
		y, ok := b.(SliceV)
		if !ok {
			return nil, false
		}
		if x.Obj != y.Obj {
			// a definitely-nil slice merges with anything (its Obj is irrelevant)
			if x.Nil.IsTrue() && y.Obj != nil {
				return SliceV{Obj: y.Obj, Off: y.Off, Len: Ite(c, Num(0), y.Len), Cap: Ite(c, Num(0), y.Cap), Nil: Ite(c, TTrue, y.Nil), Elem: y.Elem}, true
			}
			if y.Nil.IsTrue() && x.Obj != nil {
				return SliceV{Obj: x.Obj, Off: x.Off, Len: Ite(c, x.Len, Num(0)), Cap: Ite(c, x.Cap, Num(0)), Nil: Ite(c, x.Nil, TTrue), Elem: x.Elem}, true
			}
			return nil, false
		}
		return SliceV{Obj: x.Obj, Off: Ite(c, x.Off, y.Off), Len: Ite(c, x.Len, y.Len), Cap: Ite(c, x.Cap, y.Cap), Nil: Ite(c, x.Nil, y.Nil), Elem: x.Elem}, true
	case PtrV:
		y, ok := b.(PtrV)
		if !ok {
			return nil, false
		}
		if x.Obj == nil && x.Nil.IsTrue() && y.Obj != nil {
			return PtrV{Obj: y.Obj, Path: y.Path, Nil: Ite(c, TTrue, y.Nil), Elem: y.Elem}, true
		}
		if y.Obj == nil && y.Nil.IsTrue() && x.Obj != nil {
			return PtrV{Obj: x.Obj, Path: x.Path, Nil: Ite(c, x.Nil, TTrue), Elem: x.Elem}, true
		}
		if x.Obj != y.Obj || len(x.Path) != len(y.Path) {
			return nil, false
		}
		path := make([]interface{}, len(x.Path))
		for i := range x.Path {
			switch p := x.Path[i].(type) {
			case int:
				if q, ok := y.Path[i].(int); !ok || q != p {
					return nil, false
				}
				path[i] = p
			case *Term:
				q, ok := y.Path[i].(*Term)
				if !ok {
					return nil, false
				}
				path[i] = Ite(c, p, q)
			}
		}
		return PtrV{Obj: x.Obj, Path: path, Nil: Ite(c, x.Nil, y.Nil), Elem: x.Elem}, true
	case StructV:
		y, ok := b.(StructV)
		if !ok || len(x.F) != len(y.F) {
			return nil, false
		}
		f := make([]Value, len(x.F))
		for i := range x.F {
			m, ok := e.mergeValues(c, x.F[i], y.F[i])
			if !ok {
				return nil, false
			}
			f[i] = m
		}
		return StructV{T: x.T, F: f}, true
	case ArrV:
		y, ok := b.(ArrV)
		if !ok {
			return nil, false
		}
		if x.Base != nil && y.Base != nil {
			return ArrV{Elem: x.Elem, Base: Ite(c, x.Base, y.Base)}, true
		}
		if x.Base == nil && y.Base == nil && len(x.Conc) == len(y.Conc) {
			n := ArrV{Elem: x.Elem, Conc: map[int64]Value{}}
			for k, xv := range x.Conc {
				yv, ok := y.Conc[k]
				if !ok {
					return nil, false
				}
				if k == -1 {
					n.Conc[k] = xv
					continue
				}
				m, ok := e.mergeValues(c, xv, yv)
				if !ok {
					return nil, false
				}
				n.Conc[k] = m
			}
			return n, true
		}
		return nil, false
	case IfaceV:
		y, ok := b.(IfaceV)
		if !ok {
			return nil, false
		}
		return e.mergeIface(c, x, y)
	case TupleV:
		y, ok := b.(TupleV)
		if !ok || len(x) != len(y) {
			return nil, false
		}
		out := make(TupleV, len(x))
		for i := range x {
			m, ok := e.mergeValues(c, x[i], y[i])
			if !ok {
				return nil, false
			}
			out[i] = m
		}
		return out, true
	case OpaqueV:
		y, ok := b.(OpaqueV)
		if !ok {
			return nil, false
		}
		return OpaqueV{Ref: Ite(c, x.Ref, y.Ref), T: x.T}, true
	case FuncV:
		y, ok := b.(FuncV)
		if !ok {
			return nil, false
		}
		if x.Fn != nil && x.Fn == y.Fn && len(x.Bound) == len(y.Bound) {
			bd := make([]Value, len(x.Bound))
			for i := range bd {
				m, ok := e.mergeValues(c, x.Bound[i], y.Bound[i])
				if !ok {
					return nil, false
				}
				bd[i] = m
			}
			return FuncV{Fn: x.Fn, Bound: bd, Sig: x.Sig, Nil: TFalse}, true
		}
		if x.Fn == nil && y.Fn == nil && x.Sym != nil && y.Sym != nil {
			return FuncV{Sym: Ite(c, x.Sym, y.Sym), Nil: Ite(c, x.Nil, y.Nil), Sig: x.Sig}, true
		}
		if x.Fn == nil && y.Fn == nil && x.Sym == nil && y.Sym == nil {
			return x, true
		}
		return nil, false
	case MapV:
		y, ok := b.(MapV)
		if !ok || x.Obj != y.Obj {
			return nil, false
		}
		return MapV{Obj: x.Obj, Nil: Ite(c, x.Nil, y.Nil), T: x.T}, true
	case MapC:
		return nil, false
	}
	return nil, false
}

func (e *Engine) ifaceNil(v IfaceV) *Term {
	if v.Sym != nil {
		return v.Sym.Nil
	}
	return Bool(v.Dyn == nil)
}

func (e *Engine) ifaceTag(v IfaceV) *Term {
	if v.Sym != nil {
		return v.Sym.Tag
	}
	if v.Dyn == nil {
		return Num(0)
	}
	return Num(int64(e.typeID(v.Dyn)))
}

func (e *Engine) mergeIface(c *Term, x, y IfaceV) (Value, bool) {
	if x.Sym == nil && y.Sym == nil {
		if x.Dyn == nil && y.Dyn == nil {
			return IfaceV{}, true
		}
		if x.Dyn != nil && y.Dyn != nil && types.Identical(x.Dyn, y.Dyn) {
			m, ok := e.mergeValues(c, x.V, y.V)
			if ok {
				return IfaceV{Dyn: x.Dyn, V: m}, true
			}
		}
	}
	// fall back to a symbolic interface that remembers nil-ness and tag; payloads
	// of concrete sides are kept as typed cases
	e.nVar++
	s := &SymIface{ID: e.nVar, Name: "merged", Nil: Ite(c, e.ifaceNil(x), e.ifaceNil(y)), Tag: Ite(c, e.ifaceTag(x), e.ifaceTag(y)),
		Ref: e.freshVar("mergedref", SRef), Cases: map[string]Value{}}
	e.symByRef[s.Ref] = s
	e.refFactsBy[s.Ref.VarName()] = []*Term{Iff(App("tq_isnil", SBool, s.Ref), s.Nil), Implies(Not(s.Nil), Eq(App("tq_tag", SInt, s.Ref), s.Tag))}
	if x.Sym != nil {
		s.T = x.Sym.T
	} else if y.Sym != nil {
		s.T = y.Sym.T
	}
	s.CaseT = map[string]types.Type{}
	closedSide := func(side IfaceV) bool { return side.Sym == nil || side.Sym.Closed }
	s.Closed = closedSide(x) && closedSide(y)
	add := func(side IfaceV) {
		if side.Sym != nil {
			for k, v := range side.Sym.Cases {
				if _, dup := s.Cases[k]; !dup {
					s.Cases[k] = v
					if side.Sym.CaseT != nil {
						s.CaseT[k] = side.Sym.CaseT[k]
					}
				}
			}
		} else if side.Dyn != nil {
			k := types.TypeString(side.Dyn, nil)
			if _, dup := s.Cases[k]; !dup {
				s.Cases[k] = side.V
				s.CaseT[k] = side.Dyn
			}
		}
	}
	// a payload case is only sound if at most one side contributes a given type
	kx, ky := "", ""
	if x.Sym == nil && x.Dyn != nil {
		kx = types.TypeString(x.Dyn, nil)
	}
	if y.Sym == nil && y.Dyn != nil {
		ky = types.TypeString(y.Dyn, nil)
	}
	if kx != "" && kx == ky {
		return nil, false
	}
	add(x)
	add(y)
	return IfaceV{Sym: s}, true
}
