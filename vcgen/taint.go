package main

// Taint labels (C18): a small bit set carried by string values, byte-array objects,
// interface values and maps. Sources are declared by contracts (`taints`, tainted(x) in
// assumed clauses); every call without an explicit taint clause propagates the labels of its
// arguments to its results; sinks are the logger contracts.

func (st *State) taintSet(o *Obj, bits uint8) {
	if st.taint == nil {
		st.taint = map[*Obj]uint8{}
	}
	st.taint[o] |= bits
}

func (st *State) taintKeysAdd(o *Obj, keys ...string) {
	if st.taintKey == nil {
		st.taintKey = map[*Obj]map[string]bool{}
	}
	n := map[string]bool{}
	for k := range st.taintKey[o] {
		n[k] = true
	}
	for _, k := range keys {
		n[k] = true
	}
	st.taintKey[o] = n
}

// taintBits: labels carried by v (deep, through interfaces, structs, variadic slices).
func (e *Engine) taintBits(st *State, v Value, depth int) uint8 {
	if depth > 6 {
		return 0
	}
	switch x := v.(type) {
	case StrV:
		return x.Taint
	case SliceV:
		if x.Obj == nil {
			return 0
		}
		bits := st.taint[x.Obj]
		if av, ok := st.heap[x.Obj].(ArrV); ok {
			// elements of small concrete arrays (variadic arguments)
			if av.Base != nil && av.Base.Sort == SArrR {
				if n, ok := x.Len.Int64(); ok && n <= 16 {
					for i := int64(0); i < n; i++ {
						el := elemFromTerm(Select(av.Base, Add(x.Off, Num(i))), av.Elem)
						bits |= e.taintBits(st, el, depth+1)
					}
				}
			}
			if av.Base != nil && av.Base.Sort == SArrS {
				if n, ok := x.Len.Int64(); ok && n <= 16 {
					for i := int64(0); i < n; i++ {
						bits |= e.taintBits(st, elemFromTerm(Select(av.Base, Add(x.Off, Num(i))), av.Elem), depth+1)
					}
				}
			}
			for _, cv := range av.Conc {
				if val, ok := cv.(Value); ok {
					bits |= e.taintBits(st, val, depth+1)
				}
			}
		}
		return bits
	case IfaceV:
		if x.Sym != nil {
			b := x.Sym.Taint
			if x.Sym.Ref != nil {
				b |= st.taintRef[x.Sym.Ref.String()]
			}
			return b
		}
		if x.Dyn != nil {
			return e.taintBits(st, x.V, depth+1)
		}
	case StructV:
		var bits uint8
		for _, f := range x.F {
			bits |= e.taintBits(st, f, depth+1)
		}
		return bits
	case PtrV:
		if x.Obj != nil {
			if c, ok := st.heap[x.Obj]; ok {
				return st.taint[x.Obj] | e.taintBits(st, e.navGet(st, c, x.Path), depth+1)
			}
			return st.taint[x.Obj]
		}
	case MapV:
		if x.Obj != nil {
			bits := st.taint[x.Obj]
			if len(st.taintKey[x.Obj]) > 0 {
				bits |= 128
			}
			return bits
		}
	case TupleV:
		var bits uint8
		for _, f := range x {
			bits |= e.taintBits(st, f, depth+1)
		}
		return bits
	}
	return 0
}

// taintValue returns v with the labels added (strings, symbolic interfaces, byte slices).
func (e *Engine) taintValue(st *State, v Value, bits uint8) Value {
	if bits == 0 {
		return v
	}
	switch x := v.(type) {
	case StrV:
		x.Taint |= bits
		return x
	case SliceV:
		if x.Obj != nil {
			st.taintSet(x.Obj, bits)
		}
		return x
	case IfaceV:
		if x.Sym != nil {
			ns := *x.Sym
			ns.Taint |= bits
			x.Sym = &ns
			if ns.Ref != nil {
				if st.taintRef == nil {
					st.taintRef = map[string]uint8{}
				}
				st.taintRef[ns.Ref.String()] |= bits
			}
			return x
		}
		if x.Dyn != nil {
			x.V = e.taintValue(st, x.V, bits)
		}
		return x
	case StructV:
		f := make([]Value, len(x.F))
		for i := range x.F {
			f[i] = e.taintValue(st, x.F[i], bits)
		}
		return StructV{T: x.T, F: f}
	case MapV:
		if x.Obj != nil {
			st.taintSet(x.Obj, bits)
		}
		return x
	case PtrV:
		if x.Obj != nil {
			st.taintSet(x.Obj, bits)
		}
		return x
	case TupleV:
		out := make(TupleV, len(x))
		for i := range x {
			out[i] = e.taintValue(st, x[i], bits)
		}
		return out
	}
	return v
}

// propagate: results of a call without explicit taint clauses carry the labels of the arguments.
func (e *Engine) propagateTaint(st *State, args []Value, res []Value) {
	var bits uint8
	for _, a := range args {
		bits |= e.taintBits(st, a, 0)
	}
	bits &^= 128
	if bits == 0 {
		return
	}
	for i := range res {
		res[i] = e.taintValue(st, res[i], bits)
	}
}
