package main

import (
	"bytes"
	"context"
	"fmt"
	"os"
	"os/exec"
	"path/filepath"
	"sort"
	"strings"
	"sync"
	"time"
)

type preludePart struct {
	trigger string // included when this substring occurs in the query body
	text    string
}

var preludeParts = []preludePart{
	{"tq_splice ", `(declare-fun tq_splice ((Array Int Int) Int (Array Int Int) Int Int) (Array Int Int))
(assert (forall ((d (Array Int Int)) (o Int) (s (Array Int Int)) (so Int) (n Int) (i Int))
  (! (= (select (tq_splice d o s so n) i) (ite (and (<= o i) (< i (+ o n))) (select s (+ so (- i o))) (select d i)))
     :pattern ((select (tq_splice d o s so n) i)))))`},
	{"tq_spliceS ", `(declare-fun tq_spliceS ((Array Int tq_Str) Int (Array Int tq_Str) Int Int) (Array Int tq_Str))
(assert (forall ((d (Array Int tq_Str)) (o Int) (s (Array Int tq_Str)) (so Int) (n Int) (i Int))
  (! (= (select (tq_spliceS d o s so n) i) (ite (and (<= o i) (< i (+ o n))) (select s (+ so (- i o))) (select d i)))
     :pattern ((select (tq_spliceS d o s so n) i)))))`},
	{"tq_xor8 ", `(declare-fun tq_xor8 (Int Int) Int)
(assert (forall ((a Int) (b Int)) (! (and (<= 0 (tq_xor8 a b)) (<= (tq_xor8 a b) 255)) :pattern ((tq_xor8 a b)))))
(assert (forall ((a Int) (b Int)) (! (=> (and (<= 0 a) (<= a 255) (<= 0 b) (<= b 255)) (= (tq_xor8 (tq_xor8 a b) b) a)) :pattern ((tq_xor8 (tq_xor8 a b) b)))))
(assert (forall ((a Int) (b Int)) (! (= (tq_xor8 a b) (tq_xor8 b a)) :pattern ((tq_xor8 a b)))))`},
	{"tq_sumlen ", `(declare-fun tq_sumlen ((Array Int tq_Str) Int Int) Int)
(assert (forall ((a (Array Int tq_Str)) (o Int)) (! (= (tq_sumlen a o 0) 0) :pattern ((tq_sumlen a o 0)))))
(assert (forall ((a (Array Int tq_Str)) (o Int) (k Int))
  (! (=> (> k 0) (= (tq_sumlen a o k) (+ (tq_sumlen a o (- k 1)) (tq_slen (select a (+ o (- k 1)))))))
     :pattern ((tq_sumlen a o k)))))`},
	{"tq_ascii ", `(declare-fun tq_ascii ((Array Int Int) Int Int) Bool)
(declare-fun tq_ascii_w ((Array Int Int) Int Int) Int)
(assert (forall ((a (Array Int Int)) (o Int) (n Int) (j Int))
  (! (=> (and (tq_ascii a o n) (<= o j) (< j (+ o n))) (<= (select a j) 127))
     :pattern ((tq_ascii a o n) (select a j)))))
(assert (forall ((a (Array Int Int)) (o Int) (n Int))
  (! (or (tq_ascii a o n)
         (and (<= o (tq_ascii_w a o n)) (< (tq_ascii_w a o n) (+ o n)) (> (select a (tq_ascii_w a o n)) 127)))
     :pattern ((tq_ascii a o n)))))`},
	{"tq_okS ", `(declare-fun tq_okS ((Array Int tq_Str)) Bool)
(assert (forall ((a (Array Int tq_Str)) (k Int)) (! (=> (tq_okS a) (and (<= 0 (tq_slen (select a k))) (<= (tq_slen (select a k)) 1099511627776))) :pattern ((tq_okS a) (select a k)))))
(assert (forall ((a (Array Int tq_Str)) (k Int) (s tq_Str)) (! (=> (and (tq_okS a) (<= 0 (tq_slen s)) (<= (tq_slen s) 1099511627776)) (tq_okS (store a k s))) :pattern ((tq_okS (store a k s))))))`},
	{"tq_sumint ", `(declare-fun tq_sumint ((Array Int Int) Int Int) Int)
(assert (forall ((a (Array Int Int)) (o Int)) (! (= (tq_sumint a o 0) 0) :pattern ((tq_sumint a o 0)))))
(assert (forall ((a (Array Int Int)) (o Int) (k Int))
  (! (=> (> k 0) (= (tq_sumint a o k) (+ (tq_sumint a o (- k 1)) (select a (+ o (- k 1))))))
     :pattern ((tq_sumint a o k)))))`},
	{"tq_sumint ", `(assert (forall ((a (Array Int Int)) (p Int) (v Int) (o Int) (k Int))
  (! (=> (or (< p o) (>= p (+ o k))) (= (tq_sumint (store a p v) o k) (tq_sumint a o k)))
     :pattern ((tq_sumint (store a p v) o k)))))`},
	{"tq_sumlen ", `(assert (forall ((a (Array Int tq_Str)) (p Int) (v tq_Str) (o Int) (k Int))
  (! (=> (or (< p o) (>= p (+ o k))) (= (tq_sumlen (store a p v) o k) (tq_sumlen a o k)))
     :pattern ((tq_sumlen (store a p v) o k)))))`},
	{"tq_skey ", `(declare-fun tq_skey (tq_Str) Int)`},
	{"tq_rkey ", `(declare-fun tq_rkey (tq_Ref) Int)
(assert (forall ((a tq_Ref) (b tq_Ref)) (! (=> (= (tq_rkey a) (tq_rkey b)) (= a b)) :pattern ((tq_rkey a) (tq_rkey b)))))`},
	{"tq_ikey ", `(declare-fun tq_ikey (Int Int) Int)
(assert (forall ((a Int) (b Int) (c Int) (d Int)) (! (=> (= (tq_ikey a b) (tq_ikey c d)) (and (= a c) (= b d))) :pattern ((tq_ikey a b) (tq_ikey c d)))))`},
	{"tq_in ", `(declare-fun tq_in (Int) Int)
(assert (forall ((i Int)) (! (and (<= 0 (tq_in i)) (<= (tq_in i) 255)) :pattern ((tq_in i)))))`},
	{"tq_key2 ", `(declare-fun tq_key2 (Int Int) Int)
(assert (forall ((a Int) (b Int) (c Int) (d Int)) (! (=> (= (tq_key2 a b) (tq_key2 c d)) (and (= a c) (= b d))) :pattern ((tq_key2 a b) (tq_key2 c d)))))`},
	{"tq_key3 ", `(declare-fun tq_key3 (Int Int Int) Int)
(assert (forall ((a Int) (b Int) (c Int) (d Int) (e Int) (f Int)) (! (=> (= (tq_key3 a b c) (tq_key3 d e f)) (and (= a d) (= b e) (= c f))) :pattern ((tq_key3 a b c) (tq_key3 d e f)))))`},
	{"tq_key4 ", `(declare-fun tq_key4 (Int Int Int Int) Int)
(assert (forall ((a Int) (b Int) (c Int) (d Int) (e Int) (f Int) (g Int) (h Int)) (! (=> (= (tq_key4 a b c d) (tq_key4 e f g h)) (and (= a e) (= b f) (= c g) (= d h))) :pattern ((tq_key4 a b c d) (tq_key4 e f g h)))))`},
	{"tq_isnil ", `(declare-fun tq_isnil (tq_Ref) Bool)`},
	{"tq_tag ", `(declare-fun tq_tag (tq_Ref) Int)`},
	{"tq_nilref", `(declare-fun tq_nilref () tq_Ref)
(assert (tq_isnil tq_nilref))`},
	{"tq_isobj ", `(declare-fun tq_isobj (tq_Ref Int) Bool)`},
	{"tq_iszero ", `(declare-fun tq_iszero (tq_Ref) Bool)`},
	{"tq_sameval ", `(declare-fun tq_sameval (tq_Ref Int) Bool)`},
	{"tq_eps", `(declare-fun tq_eps () tq_Seq)`},
	{"tq_cat ", `(declare-fun tq_cat (tq_Seq tq_Seq) tq_Seq)`},
	{"tq_md5 ", `(declare-fun tq_md5 (tq_Seq) tq_Seq)`},
	{"tq_at ", `(declare-fun tq_at (tq_Seq Int) Int)
(assert (forall ((s tq_Seq) (i Int)) (! (and (<= 0 (tq_at s i)) (<= (tq_at s i) 255)) :pattern ((tq_at s i)))))`},
	{"tq_seq1 ", `(declare-fun tq_seq1 (Int) tq_Seq)`},
	{"tq_be32 ", `(declare-fun tq_be32 (Int) tq_Seq)`},
	{"tq_seqof ", `(declare-fun tq_seqof ((Array Int Int) Int Int) tq_Seq)`},
	{"tq_padblock ", `(declare-fun tq_padblock (tq_Seq Int) tq_Seq)`},
}

// axioms that relate several of the above (added when all triggers occur)
var preludeJoint = []struct {
	triggers []string
	text     string
}{
	{[]string{"tq_sumlen ", "tq_okS "}, `(assert (forall ((a (Array Int tq_Str)) (o Int) (i Int) (j Int))
  (! (=> (and (tq_okS a) (<= 0 i) (<= i j)) (<= (tq_sumlen a o i) (tq_sumlen a o j)))
     :pattern ((tq_sumlen a o i) (tq_sumlen a o j)))))
(assert (forall ((a (Array Int tq_Str)) (o Int) (k Int))
  (! (=> (and (tq_okS a) (<= 0 k)) (and (<= 0 (tq_sumlen a o k)) (<= (tq_sumlen a o k) 1125899906842624)))
     :pattern ((tq_sumlen a o k)))))`},
	{[]string{"tq_spliceS ", "tq_okS "}, `(assert (forall ((d (Array Int tq_Str)) (o Int) (s (Array Int tq_Str)) (so Int) (n Int))
  (! (=> (and (tq_okS d) (tq_okS s)) (tq_okS (tq_spliceS d o s so n))) :pattern ((tq_okS (tq_spliceS d o s so n))))))`},
	{[]string{"tq_padblock "}, `(assert (forall ((b tq_Seq)) (! (= (tq_padblock b 0) (tq_md5 b)) :pattern ((tq_padblock b 0)))))
(assert (forall ((b tq_Seq) (k Int)) (! (=> (> k 0) (= (tq_padblock b k) (tq_md5 (tq_cat b (tq_padblock b (- k 1)))))) :pattern ((tq_padblock b k)))))`},
	{[]string{"tq_seqof ", "tq_eps"}, `(assert (forall ((a (Array Int Int)) (o Int)) (! (= (tq_seqof a o 0) tq_eps) :pattern ((tq_seqof a o 0)))))`},
	{[]string{"tq_cat ", "tq_eps"}, `(assert (forall ((s tq_Seq)) (! (= (tq_cat s tq_eps) s) :pattern ((tq_cat s tq_eps)))))`},
	{[]string{"tq_seqof ", "tq_seq1 "}, `(assert (forall ((a (Array Int Int)) (o Int)) (! (= (tq_seqof a o 1) (tq_seq1 (select a o))) :pattern ((tq_seqof a o 1)))))`},
	{[]string{"tq_seqof ", "tq_be32 "}, `(assert (forall ((a (Array Int Int)) (o Int) (v Int))
  (! (=> (and (<= 0 v) (< v 4294967296)
            (= (select a o) (div v 16777216)) (= (select a (+ o 1)) (mod (div v 65536) 256))
            (= (select a (+ o 2)) (mod (div v 256) 256)) (= (select a (+ o 3)) (mod v 256)))
         (= (tq_seqof a o 4) (tq_be32 v)))
     :pattern ((tq_seqof a o 4) (tq_be32 v)))))`},
	// seqof depends only on the window: equal windows give equal sequences
	{[]string{"tq_seqof ", "tq_at "}, `(assert (forall ((a (Array Int Int)) (o Int) (n Int) (i Int))
  (! (=> (and (<= 0 i) (< i n)) (= (tq_at (tq_seqof a o n) i) (select a (+ o i))))
     :pattern ((tq_at (tq_seqof a o n) i)))))`},
}

var raceSem = make(chan struct{}, 5)

type SolveResult struct {
	Status string // unsat | sat | unknown | timeout | error
	Solver string
	Secs   float64
	Output string
	File   string
}

type Solver struct {
	workDir    string
	timeout    time.Duration
	keep       bool
	retry      bool          // second, longer race before a timeout is reported
	lastChance time.Duration // >0: obligations that timed out are tried once more, alone, with this limit
	mu         sync.Mutex
	wins       map[string]int
	secs       map[string]float64
	nQueries   int
}

func newSolver(workDir string, timeout time.Duration) *Solver {
	os.MkdirAll(workDir, 0o755)
	return &Solver{workDir: workDir, timeout: timeout, wins: map[string]int{}, secs: map[string]float64{}}
}

func (e *Engine) smtText(hyps []*Term, goal *Term, produceModel bool) string {
	var body bytes.Buffer
	all := append(append([]*Term{}, hyps...), goal)
	// facts about interface identities mentioned in the query
	{
		fv0 := map[string]string{}
		FreeVars(all, fv0)
		for round := 0; round < 3; round++ {
			var add []*Term
			for name := range fv0 {
				if fs, ok := e.refFactsBy[name]; ok {
					add = append(add, fs...)
				}
			}
			n0 := len(fv0)
			FreeVars(add, fv0)
			if round == 2 || len(fv0) == n0 {
				seen := map[*Term]bool{}
				for _, h := range hyps {
					seen[h] = true
				}
				for name := range fv0 {
					for _, f := range e.refFactsBy[name] {
						if !seen[f] {
							seen[f] = true
							hyps = append(hyps, f)
						}
					}
				}
				break
			}
		}
		all = append(append([]*Term{}, hyps...), goal)
	}
	fv := map[string]string{}
	FreeVars(append(append([]*Term{}, all...), e.extraTerms...), fv)
	for _, name := range sortedKeys(fv) {
		fmt.Fprintf(&body, "(declare-fun %s () %s)\n", name, fv[name])
	}
	// package-level metric/logger objects are pairwise distinct (separate constructor calls)
	{
		var present []string
		for _, n := range e.globalRefs {
			if _, ok := fv[n]; ok {
				present = append(present, n)
			}
		}
		if len(present) >= 2 {
			sort.Strings(present)
			fmt.Fprintf(&body, "(assert (distinct %s))\n", strings.Join(present, " "))
		}
	}
	for _, name := range sortedKeys(fv) {
		srt := fv[name]
		switch {
		case srt == SArrB && (e.byteArrs[name] || strings.HasPrefix(name, "tq_lit_")):
			fmt.Fprintf(&body, "(assert (forall ((i Int)) (! (and (<= 0 (select %s i)) (<= (select %s i) 255)) :pattern ((select %s i)))))\n", name, name, name)
		case srt == SArrS:
			fmt.Fprintf(&body, "(assert (forall ((k Int)) (! (and (<= 0 (tq_slen (select %s k))) (<= (tq_slen (select %s k)) %s) (<= 0 (tq_soff (select %s k)))) :pattern ((select %s k)))))\n", name, name, maxLen.String(), name, name)
			fmt.Fprintf(&body, "(assert (tq_okS %s))\n", name)
			fmt.Fprintf(&body, "(assert (forall ((k Int) (i Int)) (! (and (<= 0 (select (tq_sarr (select %s k)) i)) (<= (select (tq_sarr (select %s k)) i) 255)) :pattern ((select (tq_sarr (select %s k)) i)))))\n", name, name, name)
		}
	}
	dp := newDagPrinter(all)
	var asserts []string
	for _, h := range hyps {
		asserts = append(asserts, "(assert "+dp.pr(h)+")")
	}
	asserts = append(asserts, "(assert (not "+dp.pr(goal)+"))")
	for _, d := range dp.defs {
		body.WriteString(d + "\n")
	}
	for _, a := range asserts {
		body.WriteString(a + "\n")
	}
	bs := body.String()
	var out bytes.Buffer
	if produceModel {
		out.WriteString("(set-option :produce-models true)\n")
	}
	out.WriteString("(set-logic ALL)\n")
	out.WriteString("(declare-datatype tq_Str ((tq_mkstr (tq_sarr (Array Int Int)) (tq_soff Int) (tq_slen Int))))\n")
	out.WriteString("(declare-sort tq_Ref 0)\n(declare-sort tq_Seq 0)\n")
	// prelude parts are included when their trigger occurs in the query or in an
	// already included part (fixpoint)
	incl := make([]bool, len(preludeParts))
	inclJ := make([]bool, len(preludeJoint))
	scan := bs
	for changed := true; changed; {
		changed = false
		for i, p := range preludeParts {
			if !incl[i] && strings.Contains(scan, p.trigger) {
				incl[i] = true
				scan += p.text + "\n"
				changed = true
			}
		}
		for i, j := range preludeJoint {
			if inclJ[i] {
				continue
			}
			ok := true
			for _, t := range j.triggers {
				if !strings.Contains(scan, t) {
					ok = false
				}
			}
			if ok {
				inclJ[i] = true
				scan += j.text + "\n"
				changed = true
			}
		}
	}
	for i, p := range preludeParts {
		if incl[i] {
			out.WriteString(p.text + "\n")
		}
	}
	for i, j := range preludeJoint {
		if inclJ[i] {
			out.WriteString(j.text + "\n")
		}
	}
	// uninterpreted helper families
	declared := map[string]bool{}
	for _, fam := range []struct{ prefix, sig string }{
		{"tq_bitop_", "(Int Int) Int"}, {"tq_strcmp_", "(tq_Str tq_Str) Bool"}, {"tq_ufs_bool_", "(tq_Seq) Bool"}, {"tq_ufs_int_", "(tq_Seq) Int"}, {"tq_uf_bool_", "(Int) Bool"}, {"tq_uf_int_", "(Int) Int"}, {"tq_uf_ref_", "(Int) tq_Ref"}, {"tq_uf_arr_", "(Int) (Array Int Int)"},
	} {
		idx := 0
		for {
			j := strings.Index(bs[idx:], "("+fam.prefix)
			if j < 0 {
				break
			}
			start := idx + j + 1
			end := start
			for end < len(bs) && bs[end] != ' ' && bs[end] != ')' {
				end++
			}
			name := bs[start:end]
			if !declared[name] && fam.sig != "" {
				declared[name] = true
				fmt.Fprintf(&out, "(declare-fun %s %s)\n", name, fam.sig)
			}
			idx = end
		}
	}
	for _, d := range e.extraDecls(bs) {
		out.WriteString(d + "\n")
	}
	out.WriteString(bs)
	out.WriteString("(check-sat)\n")
	if produceModel {
		out.WriteString("(get-model)\n")
	}
	return out.String()
}

type solverCmd struct {
	name string
	args func(file string, secs int) []string
}

var solverCmds = []solverCmd{
	{"z3-5.1.0", func(f string, s int) []string { return []string{"/usr/local/bin/z3-new", fmt.Sprintf("-T:%d", s), f} }},
	{"z3-4.8.12", func(f string, s int) []string { return []string{"/usr/bin/z3", fmt.Sprintf("-T:%d", s), f} }},
	{"z3-5.1.0/seed7", func(f string, s int) []string {
		return []string{"/usr/local/bin/z3-new", fmt.Sprintf("-T:%d", s), "smt.random_seed=7", f}
	}},
	{"cvc5-1.0.3", func(f string, s int) []string {
		return []string{"/usr/bin/cvc5", fmt.Sprintf("--tlimit=%d", s*1000), "--full-saturate-quant", f}
	}},
}

func runSolver(sc solverCmd, file string, timeout time.Duration) SolveResult {
	return runSolverCtx(context.Background(), sc, file, timeout)
}

// runSolverCtx: parent cancellation (another solver of the race already decided) kills the process.
func runSolverCtx(parent context.Context, sc solverCmd, file string, timeout time.Duration) SolveResult {
	secs := int(timeout.Seconds())
	if secs < 1 {
		secs = 1
	}
	argv := sc.args(file, secs)
	ctx, cancel := context.WithTimeout(parent, timeout+2*time.Second)
	defer cancel()
	t0 := time.Now()
	cmd := exec.CommandContext(ctx, argv[0], argv[1:]...)
	var out bytes.Buffer
	cmd.Stdout = &out
	cmd.Stderr = &out
	cmd.Run()
	el := time.Since(t0).Seconds()
	o := out.String()
	res := SolveResult{Solver: sc.name, Secs: el, Output: o, File: file}
	first := strings.TrimSpace(strings.SplitN(o, "\n", 2)[0])
	switch {
	case strings.Contains(o, "(error") && first != "unsat" && first != "sat":
		res.Status = "error"
	case strings.Contains(o, "(error") && !strings.Contains(o, "model is not available") && !strings.Contains(o, "Cannot get model"):
		res.Status = "error"
	case first == "unsat":
		res.Status = "unsat"
	case first == "sat":
		res.Status = "sat"
	case first == "unknown":
		res.Status = "unknown"
	case first == "timeout" || ctx.Err() != nil || strings.Contains(o, "timeout") || strings.Contains(o, "interrupted"):
		res.Status = "timeout"
	default:
		res.Status = "error"
	}
	return res
}

// Discharge decides one query: fast attempt with z3-new, then a race of all three.
func (s *Solver) Discharge(name string, text string) SolveResult {
	s.mu.Lock()
	s.nQueries++
	id := s.nQueries
	s.mu.Unlock()
	file := filepath.Join(s.workDir, fmt.Sprintf("q%05d_%s.smt2", id, tailName(name)))
	os.WriteFile(file, []byte(text), 0o644)
	quick := 2 * time.Second
	if s.timeout < quick {
		quick = s.timeout
	}
	r := runSolver(solverCmds[0], file, quick)
	s.account(r)
	if r.Status == "unsat" || r.Status == "sat" {
		s.cleanup(file, r)
		return r
	}
	// race (limited concurrency: three processes per race)
	raceSem <- struct{}{}
	defer func() { <-raceSem }()
	ch := make(chan SolveResult, len(solverCmds))
	rctx, rcancel := context.WithCancel(context.Background())
	defer rcancel()
	for _, sc := range solverCmds {
		go func(sc solverCmd) { ch <- runSolverCtx(rctx, sc, file, s.timeout) }(sc)
	}
	var best SolveResult
	got := 0
	anyTimeout := false
	for got < len(solverCmds) {
		rr := <-ch
		got++
		s.account(rr)
		if rr.Status == "timeout" {
			anyTimeout = true
		}
		if rr.Status == "unsat" {
			best = rr
			break
		}
		if rr.Status == "sat" && best.Status != "sat" {
			best = rr
		}
		if best.Status == "" || (best.Status == "error" && rr.Status != "error") {
			best = rr
		}
	}
	if best.Status != "unsat" && best.Status != "sat" && anyTimeout {
		// "unknown" from one solver while another ran out of time is a timeout, not an answer
		best.Status = "timeout"
	}
	if best.Status == "timeout" && s.retry {
		// slow queries are the unstable ones: before an obligation is reported as undischarged
		// it gets a second, longer race with additional random seeds
		retry := append([]solverCmd{}, solverCmds...)
		for _, sd := range []int{3, 11, 23} {
			sd := sd
			retry = append(retry, solverCmd{fmt.Sprintf("z3-5.1.0/seed%d", sd), func(f string, t int) []string {
				return []string{"/usr/local/bin/z3-new", fmt.Sprintf("-T:%d", t), fmt.Sprintf("smt.random_seed=%d", sd), f}
			}})
		}
		ch2 := make(chan SolveResult, len(retry))
		for _, sc := range retry {
			go func(sc solverCmd) { ch2 <- runSolverCtx(rctx, sc, file, 4*s.timeout) }(sc)
		}
		for i := 0; i < len(retry); i++ {
			rr := <-ch2
			s.account(rr)
			if rr.Status == "unsat" {
				best = rr
				break
			}
			if rr.Status == "sat" && best.Status != "sat" {
				best = rr
			}
		}
	}
	s.cleanup(file, best)
	return best
}

// Cover runs a satisfiability probe (short timeout, one solver).
func (s *Solver) Cover(name, text string) SolveResult {
	s.mu.Lock()
	s.nQueries++
	id := s.nQueries
	s.mu.Unlock()
	file := filepath.Join(s.workDir, fmt.Sprintf("c%05d_%s.smt2", id, tailName(name)))
	os.WriteFile(file, []byte(text), 0o644)
	r := runSolver(solverCmds[0], file, 2*time.Second)
	s.mu.Lock()
	s.secs[r.Solver] += r.Secs
	s.mu.Unlock()
	if !s.keep {
		os.Remove(file)
	}
	return r
}

func (s *Solver) account(r SolveResult) {
	s.mu.Lock()
	s.secs[r.Solver] += r.Secs
	if r.Status == "unsat" {
		s.wins[r.Solver]++
	}
	s.mu.Unlock()
}

func (s *Solver) cleanup(file string, r SolveResult) {
	if r.Status == "unsat" && !s.keep {
		os.Remove(file)
	}
}

type OblResult struct {
	Name       string
	Kind       string
	Tags       []string
	Desc       string
	Pos        string
	Paths      int
	Trivial    int
	Status     string // proved | failed
	Fail       *SolveResult
	FailObl    *Obligation
	Solver     map[string]int
	Secs       float64
	MaxSecs    float64
	SlowFile   string
	SlowSolver string
}

// dischargeAll groups obligations by name and decides every path instance.
func (e *Engine) dischargeAll(s *Solver, obls []*Obligation, workers int) []*OblResult {
	byName := map[string]*OblResult{}
	covers := map[string][]*Obligation{}
	var order []string
	type job struct {
		o      *Obligation
		r      *OblResult
		text   string
		failed bool
	}
	var jobs []*job
	for _, o := range obls {
		r := byName[o.Name]
		if r == nil {
			r = &OblResult{Name: o.Name, Kind: o.Kind, Tags: o.Tags, Desc: o.Desc, Pos: o.Pos, Status: "proved", Solver: map[string]int{}}
			byName[o.Name] = r
			order = append(order, o.Name)
		}
		r.Paths++
		if o.Goal.IsTrue() {
			r.Trivial++
			continue
		}
		if o.Kind == "cover" {
			covers[o.Name] = append(covers[o.Name], o)
			continue
		}
		jobs = append(jobs, &job{o: o, r: r, text: e.smtText(o.Hyps, o.Goal, false)})
	}
	// cover obligations: satisfied as soon as one instance is not refuted
	type cjob struct {
		r     *OblResult
		texts []string
	}
	var cjobs []cjob
	for name, os := range covers {
		cj := cjob{r: byName[name]}
		// try the shortest path conditions first; at most 6 instances
		sort.Slice(os, func(i, j int) bool { return len(os[i].Hyps) < len(os[j].Hyps) })
		for i, o := range os {
			if i >= 6 {
				break
			}
			cj.texts = append(cj.texts, e.smtText(o.Hyps, o.Goal, false))
		}
		cjobs = append(cjobs, cj)
	}
	var wg sync.WaitGroup
	var mu sync.Mutex
	sem := make(chan struct{}, workers)
	for _, j := range jobs {
		wg.Add(1)
		sem <- struct{}{}
		go func(j *job) {
			defer wg.Done()
			defer func() { <-sem }()
			res := s.Discharge(j.o.Name, j.text)
			mu.Lock()
			if res.Status != "unsat" {
				j.failed = true
			}
			if res.Secs > j.r.MaxSecs {
				j.r.MaxSecs = res.Secs
				j.r.SlowFile = res.File
				j.r.SlowSolver = res.Solver
			}
			j.r.Secs += res.Secs
			if res.Status == "unsat" {
				j.r.Solver[res.Solver]++
			} else if j.r.Status == "proved" {
				j.r.Status = "failed"
				rr := res
				j.r.Fail = &rr
				j.r.FailObl = j.o
			}
			mu.Unlock()
		}(j)
	}
	for _, cj := range cjobs {
		wg.Add(1)
		sem <- struct{}{}
		go func(cj cjob) {
			defer wg.Done()
			defer func() { <-sem }()
			allUnsat := true
			for _, t := range cj.texts {
				res := s.Cover(cj.r.Name, t)
				if res.Status != "unsat" {
					allUnsat = false
					break
				}
			}
			mu.Lock()
			if allUnsat {
				cj.r.Status = "proved" // = vacuous: every instance refuted
			} else {
				cj.r.Status = "failed" // = covered
			}
			mu.Unlock()
		}(cj)
	}
	wg.Wait()
	// last chance for obligations that ran out of time: one at a time (the machine may have been
	// busy with the other queries of this run, or with other checks), long limit, more seeds.
	// Only when at most three obligations are affected, so that a tree that genuinely fails is not held up.
	timedOut := 0
	for _, j := range jobs {
		if j.r.Status == "failed" && j.r.FailObl == j.o && j.r.Fail != nil && j.r.Fail.Status == "timeout" {
			timedOut++
		}
	}
	// many obligations out of time = a tree that really fails; one or two = possibly a busy machine
	if s.lastChance > 0 && timedOut <= 3 {
		n := 0
		for _, j := range jobs {
			if n >= 3 {
				break
			}
			if j.r.Status != "failed" || j.r.FailObl != j.o || j.r.Fail == nil || j.r.Fail.Status != "timeout" {
				continue
			}
			n++
			s2 := &Solver{workDir: s.workDir, timeout: s.lastChance, wins: map[string]int{}, secs: map[string]float64{}, retry: false}
			res := s2.Discharge(j.o.Name+"_lastchance", j.text)
			s.account(res)
			if res.Status == "unsat" {
				// the other path instances of this obligation were all discharged (the first failure is recorded)
				still := false
				for _, k := range jobs {
					if k.r == j.r && k.o != j.o && k.failed {
						still = true
					}
				}
				if !still {
					j.r.Status = "proved"
					j.r.Fail, j.r.FailObl = nil, nil
					j.r.Solver[res.Solver+" (last chance)"]++
				}
			}
		}
	}
	sort.Strings(order)
	out := make([]*OblResult, 0, len(order))
	for _, n := range order {
		out = append(out, byName[n])
	}
	return out
}

// tailName: file-name-safe suffix of an obligation name (the informative part is at the end).
func tailName(name string) string {
	var b strings.Builder
	for _, r := range name {
		if r >= 'a' && r <= 'z' || r >= 'A' && r <= 'Z' || r >= '0' && r <= '9' || r == '_' {
			b.WriteRune(r)
		} else {
			b.WriteRune('_')
		}
	}
	t := b.String()
	if len(t) > 60 {
		t = t[len(t)-60:]
	}
	return t
}
