package main

// Evaluation of contract expressions over executor states.

import (
	"fmt"
	"go/constant"
	"go/types"
	"math/big"
	"os"
	"strconv"
	"strings"
)

type TypeV struct{ T types.Type }

type EvalCtx struct {
	e       *Engine
	st      *State
	old     *State
	bind    map[string]Value
	pkg     *types.Package
	setVar  func(name string, v Value) bool
	errs    *[]string
	fnKey   string
	noVars  bool
	nerr    *int
	lastErr *string
	pend    *[]pendingFork // conditional strong updates to be handled by forking (applyContract)
}

type pendingFork struct{ P, Q Expr }

// stripFresh removes fresh(x) conjuncts from q, marking their objects as fresh.
func (c *EvalCtx) stripFresh(q Expr) (Expr, bool) {
	switch e := q.(type) {
	case *ECall:
		if e.Fun == "fresh" && len(e.Args) == 1 {
			switch s := c.eval(e.Args[0]).(type) {
			case SliceV:
				if s.Obj != nil {
					s.Obj.Fresh = true
				}
			case PtrV:
				if s.Obj != nil {
					s.Obj.Fresh = true
				}
			}
			return nil, true
		}
	case *EBinary:
		if e.Op == "&&" {
			x, cx := c.stripFresh(e.X)
			y, cy := c.stripFresh(e.Y)
			if !cx && !cy {
				return q, false
			}
			switch {
			case x == nil:
				return y, true
			case y == nil:
				return x, true
			}
			return &EBinary{"&&", x, y}, true
		}
	}
	return q, false
}

// needsStrong: does assuming q involve a strong update (slice/pointer geometry)?
func (c *EvalCtx) needsStrong(q Expr) bool {
	b, ok := q.(*EBinary)
	if !ok {
		return false
	}
	switch b.Op {
	case "&&":
		return c.needsStrong(b.X) || c.needsStrong(b.Y)
	case "==":
		if l, ok := c.loc(b.X); ok && (l.Ptr != nil || l.Var != "") {
			s := c.soft()
			switch s.eval(b.Y).(type) {
			case SliceV, PtrV, MapV:
				return *s.nerr == 0
			}
		}
	}
	return false
}

func (c *EvalCtx) with(name string, v Value) *EvalCtx {
	n := *c
	n.bind = make(map[string]Value, len(c.bind)+1)
	for k, x := range c.bind {
		n.bind[k] = x
	}
	n.bind[name] = v
	return &n
}

func (c *EvalCtx) fail(format string, a ...interface{}) Value {
	msg := fmt.Sprintf(format, a...)
	if c.nerr != nil {
		// soft mode: the caller turns the clause into a failed obligation
		*c.nerr++
		*c.lastErr = msg
		return TFalse
	}
	c.e.toolError("contract evaluation (%s): %s", c.fnKey, msg)
	return TFalse
}

// soft makes evaluation errors local to the clause being evaluated.
func (c *EvalCtx) soft() *EvalCtx {
	n := *c
	n.nerr = new(int)
	n.lastErr = new(string)
	return &n
}

// goal evaluates a clause as an obligation: a clause that cannot be evaluated on
// the current code (e.g. it names a variable that no longer exists) is a failed
// obligation, never a silent pass.
func (c *EvalCtx) goal(x Expr) (t *Term, note string) {
	s := c.soft()
	// a clause written for the code as it was can be ill-typed on changed code (a variable
	// that became a byte slice, say): that is a clause that cannot be evaluated, not a crash
	defer func() {
		if r := recover(); r != nil {
			t, note = TFalse, fmt.Sprintf(" [clause cannot be evaluated on this code: %v]", r)
		}
	}()
	t = s.boolean(x)
	if *s.nerr > 0 {
		return TFalse, " [clause cannot be evaluated on this code: " + *s.lastErr + "]"
	}
	return t, ""
}

func (c *EvalCtx) term(x Expr) *Term {
	v := c.eval(x)
	switch t := v.(type) {
	case *Term:
		return t
	case TypeV:
		return Num(int64(c.e.typeID(t.T)))
	}
	c.fail("expected a term, got %T for %s", v, exprStr(x))
	return TFalse
}

func (c *EvalCtx) boolean(x Expr) *Term {
	t := c.term(x)
	if t.Sort != SBool {
		c.fail("expected Bool, got %s in %s", t.Sort, exprStr(x))
		return TFalse
	}
	return t
}

func exprStr(x Expr) string {
	switch e := x.(type) {
	case *EIdent:
		return e.Name
	case *ENum:
		return e.V
	case *EStr:
		return strconv.Quote(e.V)
	case *EBool:
		return fmt.Sprint(e.V)
	case *EUnary:
		return e.Op + exprStr(e.X)
	case *EBinary:
		return "(" + exprStr(e.X) + " " + e.Op + " " + exprStr(e.Y) + ")"
	case *ECall:
		var as []string
		for _, a := range e.Args {
			as = append(as, exprStr(a))
		}
		return e.Fun + "(" + strings.Join(as, ", ") + ")"
	case *EIndex:
		return exprStr(e.X) + "[" + exprStr(e.I) + "]"
	case *ESlice:
		lo, hi := "", ""
		if e.Lo != nil {
			lo = exprStr(e.Lo)
		}
		if e.Hi != nil {
			hi = exprStr(e.Hi)
		}
		return exprStr(e.X) + "[" + lo + ":" + hi + "]"
	case *EField:
		return exprStr(e.X) + "." + e.Name
	case *EQuant:
		return e.Kind + " " + strings.Join(e.Vars, ",") + " :: " + exprStr(e.Body)
	case *ECond:
		return exprStr(e.C) + " ? " + exprStr(e.A) + " : " + exprStr(e.B)
	case *ELet:
		return "let " + e.Name + " = " + exprStr(e.Val) + " in " + exprStr(e.Body)
	case *EAll:
		return exprStr(e.X) + "[..]"
	}
	return "?"
}

var pkgAlias = map[string]string{
	"tq": modPath, "tacquito": modPath,
}

func (c *EvalCtx) lookupPkgObj(pkg *types.Package, name string) (Value, bool) {
	if pkg == nil {
		return nil, false
	}
	obj := pkg.Scope().Lookup(name)
	switch o := obj.(type) {
	case *types.Const:
		return c.e.constValue(o.Type(), o.Val()), true
	case *types.TypeName:
		return TypeV{o.Type()}, true
	case *types.Var:
		// package-level variable: its current value
		if sp := c.e.ssaPkgs[pkg.Path()]; sp != nil && c.st != nil {
			if g := sp.Var(name); g != nil {
				return c.e.loadPtr(c.st, c.e.globalPtr(g)), true
			}
		}
	}
	return nil, false
}

func (c *EvalCtx) findPkg(alias string) *types.Package {
	path, ok := pkgAlias[alias]
	if !ok {
		// imports of the contract's package by name
		if c.pkg != nil {
			for _, imp := range c.pkg.Imports() {
				if imp.Name() == alias {
					return imp
				}
			}
		}
		for p, sp := range c.e.ssaPkgs {
			if p == alias || strings.HasSuffix(p, "/"+alias) {
				return sp.Pkg
			}
		}
		return nil
	}
	if sp := c.e.ssaPkgs[path]; sp != nil {
		return sp.Pkg
	}
	return nil
}

func (c *EvalCtx) ident(name string) Value {
	if v, ok := c.bind[name]; ok {
		if va, isAddr := v.(varAddr); isAddr {
			return c.e.loadPtr(c.st, va.P)
		}
		return v
	}
	if !c.noVars {
		if v, ok := c.st.vars[name]; ok {
			if va, isAddr := v.(varAddr); isAddr {
				return c.e.loadPtr(c.st, va.P)
			}
			return v
		}
	}
	if m := c.e.localAlias[c.fnKey]; m != nil && c.st != nil {
		if alt, ok := m[name]; ok {
			if v, ok := c.bind[alt]; ok {
				if va, isAddr := v.(varAddr); isAddr {
					return c.e.loadPtr(c.st, va.P)
				}
				return v
			}
			if v, ok := c.st.vars[alt]; ok && !c.noVars {
				if va, isAddr := v.(varAddr); isAddr {
					return c.e.loadPtr(c.st, va.P)
				}
				return v
			}
		}
	}
	if v, ok := c.lookupPkgObj(c.pkg, name); ok {
		return v
	}
	if sp := c.e.ssaPkgs[modPath]; sp != nil {
		if v, ok := c.lookupPkgObj(sp.Pkg, name); ok {
			return v
		}
	}
	switch name {
	case "bytesT":
		// the type []byte, for type assertions in contracts: x.(bytesT)
		return TypeV{T: types.NewSlice(types.Typ[types.Byte])}
	case "rangecount":
		// number of entries produced so far by the innermost range-over-map loop
		if v, ok := c.st.ghost["rangecount"]; ok {
			return v
		}
		return Num(0)
	case "nil":
		return nilV{}
	case "int", "byte", "uint8", "uint16", "uint32", "uint64", "int64", "string", "bool", "error":
		return TypeV{types.Universe.Lookup(name).Type()}
	}
	if c.e.unkIdents != nil && c.fnKey == c.e.curFn {
		c.e.unkIdents[name] = true
	}
	return c.fail("unknown identifier %q", name)
}

type nilV struct{}

func (c *EvalCtx) eval(x Expr) Value {
	switch e := x.(type) {
	case *EIdent:
		return c.ident(e.Name)
	case *ENum:
		n := new(big.Int)
		if _, ok := n.SetString(e.V, 0); !ok {
			return c.fail("bad number %s", e.V)
		}
		return NumB(n)
	case *EStr:
		s, err := strconv.Unquote(`"` + e.V + `"`)
		if err != nil {
			s = e.V
		}
		return constStr(s)
	case *EBool:
		return Bool(e.V)
	case *EUnary:
		switch e.Op {
		case "!":
			return Not(c.boolean(e.X))
		case "-":
			return Neg(c.term(e.X))
		case "*":
			v := c.eval(e.X)
			switch p := v.(type) {
			case PtrV:
				if p.Obj == nil {
					return c.e.zero(p.Elem)
				}
				return c.e.loadPtr(c.st, p)
			case TypeV:
				return TypeV{types.NewPointer(p.T)}
			}
			return c.fail("cannot dereference %T", v)
		case "&":
			return c.fail("address-of not supported")
		}
	case *EBinary:
		return c.binary(e)
	case *ECond:
		cond := c.boolean(e.C)
		if cond.IsTrue() {
			return c.eval(e.A)
		}
		if cond.IsFalse() {
			return c.eval(e.B)
		}
		a, b := c.eval(e.A), c.eval(e.B)
		m, ok := c.e.mergeValues(cond, a, b)
		if !ok {
			return c.fail("cannot merge branches of conditional %s", exprStr(x))
		}
		return m
	case *ELet:
		v := c.eval(e.Val)
		return c.with(e.Name, v).eval(e.Body)
	case *EQuant:
		cc := c
		var bound []*Term
		for i, name := range e.Vars {
			srt := SInt
			if e.Types[i] == "bool" {
				srt = SBool
			}
			b := FreshBound(name, srt)
			bound = append(bound, b)
			cc = cc.with(name, b)
		}
		body := cc.boolean(e.Body)
		if e.Kind == "forall" {
			var pats [][]*Term
			for _, pe := range e.Pats {
				var pt []*Term
				for _, x := range pe {
					switch pv := cc.eval(x).(type) {
					case *Term:
						pt = append(pt, pv)
					case StrV:
						if pv.Arr.Op == "tq_sarr" {
							pt = append(pt, pv.Arr.Args[0])
						} else {
							pt = append(pt, pv.Len)
						}
					default:
						c.fail("bad pattern %s", exprStr(x))
					}
				}
				pats = append(pats, pt)
			}
			return Forall(bound, body, pats...)
		}
		return Exists(bound, body)
	case *EField:
		// qualified names: pkg.Name, ghost.name
		if id, ok := e.X.(*EIdent); ok {
			if id.Name == "ghost" {
				if v, ok := c.st.ghost[e.Name]; ok {
					return v
				}
				return c.e.ghostInit(c.st, e.Name)
			}
			if _, bound := c.bind[id.Name]; !bound {
				if _, isVar := c.st.vars[id.Name]; !isVar || c.noVars {
					if p := c.findPkg(id.Name); p != nil {
						if v, ok := c.lookupPkgObj(p, e.Name); ok {
							return v
						}
					}
				}
			}
		}
		v := c.eval(e.X)
		return c.field(v, e.Name, x)
	case *EIndex:
		v := c.eval(e.X)
		return c.index(v, e.I, x)
	case *ESlice:
		v := c.eval(e.X)
		var lo, hi *Term
		if e.Lo != nil {
			lo = c.term(e.Lo)
		}
		if e.Hi != nil {
			hi = c.term(e.Hi)
		}
		switch s := v.(type) {
		case SliceV:
			if lo == nil {
				lo = Num(0)
			}
			if hi == nil {
				hi = s.Len
			}
			return SliceV{Obj: s.Obj, Off: Add(s.Off, lo), Len: Sub(hi, lo), Cap: Sub(s.Cap, lo), Nil: s.Nil, Elem: s.Elem}
		case StrV:
			if lo == nil {
				lo = Num(0)
			}
			if hi == nil {
				hi = s.Len
			}
			return StrV{Arr: s.Arr, Off: Add(s.Off, lo), Len: Sub(hi, lo)}
		}
		return c.fail("cannot slice %T", v)
	case *EAll:
		return c.eval(e.X)
	case *ECall:
		return c.call(e)
	}
	return c.fail("cannot evaluate %s", exprStr(x))
}

func (c *EvalCtx) choice(ch ChoiceV, f func(Value) Value) Value {
	a, b := f(ch.A), f(ch.B)
	if m, ok := c.e.mergeValues(ch.Cond, a, b); ok {
		return m
	}
	return ChoiceV{ch.Cond, a, b}
}

func (c *EvalCtx) field(v Value, name string, x Expr) Value {
	if ch, ok := v.(ChoiceV); ok {
		return c.choice(ch, func(a Value) Value { return c.field(a, name, x) })
	}
	switch s := v.(type) {
	case PtrV:
		if s.Obj == nil {
			// nil pointer: the access is meaningless (always guarded); any value will do
			return c.field(c.e.zero(s.Elem), name, x)
		}
		return c.field(c.e.loadPtr(c.st, s), name, x)
	case StructV:
		for i := 0; i < s.T.NumFields(); i++ {
			if s.T.Field(i).Name() == name {
				return s.F[i]
			}
		}
		// promoted fields through embedded structs
		for i := 0; i < s.T.NumFields(); i++ {
			if s.T.Field(i).Embedded() {
				inner := s.F[i]
				if p, ok := inner.(PtrV); ok && p.Obj != nil {
					inner = c.e.loadPtr(c.st, p)
				}
				if sv, ok := inner.(StructV); ok {
					for j := 0; j < sv.T.NumFields(); j++ {
						if sv.T.Field(j).Name() == name {
							return sv.F[j]
						}
					}
				}
			}
		}
		return c.fail("no field %s in struct (%s)", name, exprStr(x))
	case IfaceV:
		// fields of interface values are not accessible
	}
	return c.fail("field %s of %T in %s", name, v, exprStr(x))
}

func (c *EvalCtx) index(v Value, ie Expr, x Expr) Value {
	if ch, ok := v.(ChoiceV); ok {
		return c.choice(ch, func(a Value) Value { return c.index(a, ie, x) })
	}
	if arr, ok := v.(*Term); ok && arr.Sort == SMapRI {
		k := c.eval(ie)
		if iv, isI := k.(IfaceV); isI {
			return Select(arr, c.e.ifaceRef(iv))
		}
		return c.fail("refmap index must be an interface value")
	}
	switch s := v.(type) {
	case StrV:
		i := c.term(ie)
		r := Select(s.Arr, Add(s.Off, i))
		return r
	case SliceV:
		i := c.term(ie)
		if s.Obj == nil {
			// nil slice: reads are meaningless (always guarded); any value will do
			return c.e.zero(s.Elem)
		}
		av := c.e.heapGet(c.st, s.Obj).(ArrV)
		return av.get(c.e, c.st, Add(s.Off, i))
	case ArrV:
		return s.get(c.e, c.st, c.term(ie))
	case PtrV:
		return c.index(c.e.loadPtr(c.st, s), ie, x)
	case MapV:
		k := c.eval(ie)
		val, _ := c.e.mapGet(c.st, s, k)
		return val
	}
	return c.fail("cannot index %T in %s", v, exprStr(x))
}

func isNilV(v Value) bool { _, ok := v.(nilV); return ok }

func (c *EvalCtx) nilTerm(v Value) (*Term, bool) {
	switch s := v.(type) {
	case PtrV:
		return s.Nil, true
	case SliceV:
		return s.Nil, true
	case IfaceV:
		return c.e.ifaceNil(s), true
	case MapV:
		return s.Nil, true
	case FuncV:
		return s.Nil, true
	case nilV:
		return TTrue, true
	}
	return nil, false
}

func (c *EvalCtx) binary(e *EBinary) Value {
	switch e.Op {
	case "&&":
		a := c.boolean(e.X)
		if a.IsFalse() {
			return TFalse
		}
		return And(a, c.boolean(e.Y))
	case "||":
		a := c.boolean(e.X)
		if a.IsTrue() {
			return TTrue
		}
		return Or(a, c.boolean(e.Y))
	case "==>":
		a := c.boolean(e.X)
		if a.IsFalse() {
			return TTrue
		}
		return Implies(a, c.boolean(e.Y))
	case "<==>":
		return Iff(c.boolean(e.X), c.boolean(e.Y))
	case "==", "!=":
		a, b := c.eval(e.X), c.eval(e.Y)
		var eq *Term
		if ch, ok := a.(ChoiceV); ok {
			eq = c.choiceEq(ch, b)
			if e.Op == "!=" {
				return Not(eq)
			}
			return eq
		}
		if ch, ok := b.(ChoiceV); ok {
			eq = c.choiceEq(ch, a)
			if e.Op == "!=" {
				return Not(eq)
			}
			return eq
		}
		switch {
		case isNilV(a) || isNilV(b):
			other := a
			if isNilV(a) {
				other = b
			}
			n, ok := c.nilTerm(other)
			if !ok {
				return c.fail("comparison of %T with nil", other)
			}
			eq = n
		default:
			ta, aIsT := a.(TypeV)
			tb, bIsT := b.(TypeV)
			if aIsT {
				a = Num(int64(c.e.typeID(ta.T)))
			}
			if bIsT {
				b = Num(int64(c.e.typeID(tb.T)))
			}
			eq = c.e.valueEq(c.st, a, b)
		}
		if e.Op == "!=" {
			return Not(eq)
		}
		return eq
	}
	a, b := c.term(e.X), c.term(e.Y)
	switch e.Op {
	case "<":
		return Lt(a, b)
	case "<=":
		return Le(a, b)
	case ">":
		return Gt(a, b)
	case ">=":
		return Ge(a, b)
	case "+":
		return Add(a, b)
	case "-":
		return Sub(a, b)
	case "*":
		return Mul(a, b)
	case "/", "div":
		return Div(a, b)
	case "%", "mod":
		return Mod(a, b)
	case "<<":
		if k, ok := b.Int64(); ok {
			return Mul(a, Pow2(int(k)))
		}
	case ">>":
		if k, ok := b.Int64(); ok {
			return Div(a, Pow2(int(k)))
		}
	case "&":
		if r := bitAnd(a, b); r != nil {
			return r
		}
		if r := bitAnd(b, a); r != nil {
			return r
		}
	case "|":
		if r := bitOr(a, b); r != nil {
			return r
		}
		if r := bitOr(b, a); r != nil {
			return r
		}
	}
	return c.fail("unsupported operator %s", e.Op)
}

func (c *EvalCtx) choiceEq(ch ChoiceV, other Value) *Term {
	one := func(a Value) *Term {
		if inner, ok := a.(ChoiceV); ok {
			return c.choiceEq(inner, other)
		}
		if isNilV(other) {
			n, ok := c.nilTerm(a)
			if ok {
				return n
			}
		}
		return c.e.valueEq(c.st, a, other)
	}
	return Ite(ch.Cond, one(ch.A), one(ch.B))
}

func (c *EvalCtx) lenOf(v Value) *Term {
	switch s := v.(type) {
	case StrV:
		return s.Len
	case SliceV:
		return s.Len
	case MapV:
		if s.Obj == nil {
			return Num(0)
		}
		return c.e.mapContent(c.st, s).Card
	case PtrV:
		return c.lenOf(c.e.loadPtr(c.st, s))
	}
	c.fail("len of %T", v)
	return Num(0)
}

// arrOf returns the SMT array and offset/len of a byte string or slice.
func (c *EvalCtx) arrOf(v Value) (arr, off, ln *Term, ok bool) {
	switch s := v.(type) {
	case StrV:
		return s.Arr, s.Off, s.Len, true
	case SliceV:
		if s.Obj == nil {
			return emptyArr, Num(0), Num(0), true
		}
		av, isArr := c.e.heapGet(c.st, s.Obj).(ArrV)
		if !isArr || av.Base == nil {
			return nil, nil, nil, false
		}
		return av.Base, s.Off, s.Len, true
	}
	return nil, nil, nil, false
}

func (c *EvalCtx) call(e *ECall) Value {
	arg := func(i int) Expr {
		if i < len(e.Args) {
			return e.Args[i]
		}
		c.fail("%s: missing argument %d", e.Fun, i)
		return &EBool{false}
	}
	switch e.Fun {
	case "old":
		n := *c
		n.st = c.old
		if n.st == nil {
			return c.fail("old() used without an old state")
		}
		n.noVars = true
		return n.eval(arg(0))
	case "len":
		return c.lenOf(c.eval(arg(0)))
	case "cap":
		if s, ok := c.eval(arg(0)).(SliceV); ok {
			return s.Cap
		}
		return c.fail("cap of non-slice")
	case "off":
		switch s := c.eval(arg(0)).(type) {
		case SliceV:
			return s.Off
		case StrV:
			return s.Off
		}
		return c.fail("off of non-slice")
	case "int", "uint", "int64", "uint64":
		return c.term(arg(0))
	case "byte", "uint8":
		return Mod(c.term(arg(0)), Num(256))
	case "uint16":
		return Mod(c.term(arg(0)), Num(65536))
	case "uint32":
		return Mod(c.term(arg(0)), Pow2(32))
	case "min":
		return Min(c.term(arg(0)), c.term(arg(1)))
	case "max":
		a, b := c.term(arg(0)), c.term(arg(1))
		return Ite(Le(a, b), b, a)
	case "typeOf":
		v := c.eval(arg(0))
		if i, ok := v.(IfaceV); ok {
			return Ite(c.e.ifaceNil(i), Num(0), c.e.ifaceTag(i))
		}
		return c.fail("typeOf of non-interface %T", v)
	case "deref":
		if iv, ok := c.eval(arg(0)).(IfaceV); ok && iv.Sym == nil {
			if p, isPtr := iv.V.(PtrV); isPtr && p.Obj != nil {
				return c.e.loadPtr(c.st, p)
			}
		}
		return c.fail("deref: not a concrete pointer in an interface")
	case "elemTypeOf":
		if i, ok := c.eval(arg(0)).(IfaceV); ok && i.Sym == nil && i.Dyn != nil {
			if p, isPtr := i.Dyn.(*types.Pointer); isPtr {
				return TypeV{p.Elem()}
			}
		}
		return c.fail("elemTypeOf: not a concrete pointer in an interface")
	case "instream":
		r := App("tq_in", SInt, c.term(arg(0)))
		r.Hi = big.NewInt(255)
		return r
	case "$assert":
		v := c.eval(arg(0))
		tv, ok := c.eval(arg(1)).(TypeV)
		i, ok2 := v.(IfaceV)
		if !ok || !ok2 {
			return c.fail("bad type assertion in contract")
		}
		if i.Sym == nil {
			if i.Dyn != nil && types.Identical(i.Dyn, tv.T) {
				return i.V
			}
			return c.e.zero(tv.T)
		}
		k := types.TypeString(tv.T, nil)
		if p, have := i.Sym.Cases[k]; have {
			return p
		}
		tmp := &State{}
		p := c.e.fresh(tmp, tv.T, i.Sym.Name+"_as_"+sanitize(typeStr(tv.T)))
		for _, f := range tmp.pc {
			c.st.assume(f)
		}
		if pp, isPtr := p.(PtrV); isPtr {
			pp.Nil = TFalse
			p = pp
		}
		i.Sym.Cases[k] = p
		return p
	case "fresh":
		switch s := c.eval(arg(0)).(type) {
		case SliceV:
			if s.Obj == nil {
				return TTrue
			}
			return Or(s.Nil, Bool(s.Obj.Fresh && s.Obj.MayAlias == nil))
		case PtrV:
			if s.Obj == nil {
				return TTrue
			}
			return Bool(s.Obj.Fresh)
		}
		return c.fail("fresh of non-reference")
	case "ownState":
		// ownState(p, "f1", "f2", …): p points to a struct allocated in this function whose
		// reference-typed fields (pointer, map, slice, channel) are nil or point to objects that
		// were allocated in this function too — except the fields listed, which may be shared.
		// Interface- and function-typed fields must be listed or nil. (C09: a per-user / per-
		// request handler carries no mutable state shared with its factory or its siblings.)
		pv, ok := c.eval(arg(0)).(PtrV)
		if !ok {
			if iv, isI := c.eval(arg(0)).(IfaceV); isI {
				pv, ok = iv.V.(PtrV)
			}
		}
		if !ok || pv.Obj == nil || len(pv.Path) != 0 {
			return TFalse // nil or not a pointer to a whole object (guarded by the clause, e.g. err == nil ==> …)
		}
		if !pv.Obj.Fresh {
			return TFalse
		}
		sv, ok := c.e.heapGet(c.st, pv.Obj).(StructV)
		if !ok {
			return c.fail("ownState: not a struct")
		}
		shared := map[string]bool{}
		for i := 1; i < len(e.Args); i++ {
			if lit, ok := c.eval(arg(i)).(StrV); ok && lit.Lit != nil {
				shared[*lit.Lit] = true
			} else {
				return c.fail("ownState: field names must be string literals")
			}
		}
		var conj []*Term
		for i := 0; i < sv.T.NumFields(); i++ {
			if shared[sv.T.Field(i).Name()] {
				continue
			}
			switch f := sv.F[i].(type) {
			case PtrV:
				if f.Obj != nil && !f.Obj.Fresh {
					conj = append(conj, f.Nil)
				}
			case MapV:
				if f.Obj != nil && !f.Obj.Fresh {
					conj = append(conj, f.Nil)
				}
			case SliceV:
				if f.Obj != nil && !(f.Obj.Fresh && f.Obj.MayAlias == nil) {
					conj = append(conj, f.Nil)
				}
			case IfaceV:
				if p2, isP := f.V.(PtrV); isP && p2.Obj != nil && p2.Obj.Fresh {
					continue
				}
				conj = append(conj, c.e.ifaceNil(f))
			case FuncV:
				conj = append(conj, f.Nil)
			case OpaqueV:
				switch under(sv.T.Field(i).Type()).(type) {
				case *types.Pointer, *types.Map, *types.Slice, *types.Chan, *types.Interface, *types.Signature:
					conj = append(conj, TFalse)
				}
			}
		}
		return And(conj...)
	case "sameArray":
		a, ok1 := c.eval(arg(0)).(SliceV)
		b, ok2 := c.eval(arg(1)).(SliceV)
		if !ok1 || !ok2 {
			return c.fail("sameArray of non-slices")
		}
		if a.Obj != b.Obj && ((a.Obj != nil && a.Obj.Sym) || (b.Obj != nil && b.Obj.Sym)) {
			return c.e.freshVar("samearray", SBool)
		}
		return Bool(a.Obj == b.Obj)
	case "inside":
		// inside(s, data): the bytes of s are a sub-range of data's bytes (same array snapshot)
		sa, so, sl, ok1 := c.arrOf(c.eval(arg(0)))
		da, do, dl, ok2 := c.arrOf(c.eval(arg(1)))
		if !ok1 || !ok2 {
			return c.fail("inside: not byte sequences")
		}
		return Or(Eq(sl, Num(0)), And(Eq(sa, da), Le(do, so), Le(Add(so, sl), Add(do, dl))))
	case "window":
		// window(s, data, off, n): s is literally data[off:off+n] (same array snapshot), or both are empty
		sa, so, sl, ok1 := c.arrOf(c.eval(arg(0)))
		da, do, _, ok2 := c.arrOf(c.eval(arg(1)))
		if !ok1 || !ok2 {
			return c.fail("window: not byte sequences")
		}
		off, n := c.term(arg(2)), c.term(arg(3))
		return Or(And(Eq(sl, Num(0)), Eq(n, Num(0))), And(Eq(sa, da), Eq(so, Add(do, off)), Eq(sl, n)))
	case "within":
		// within(s, data): slice s lies inside slice data (same backing object)
		a, ok1 := c.eval(arg(0)).(SliceV)
		b, ok2 := c.eval(arg(1)).(SliceV)
		if !ok1 || !ok2 {
			return c.fail("within of non-slices")
		}
		if a.Obj != b.Obj {
			if (a.Obj != nil && a.Obj.Sym) || (b.Obj != nil && b.Obj.Sym) {
				// identity of a placeholder is unknown: neither true nor false
				return Or(Eq(a.Len, Num(0)), c.e.freshVar("within", SBool))
			}
			return Eq(a.Len, Num(0))
		}
		return And(Le(b.Off, a.Off), Le(Add(a.Off, a.Len), Add(b.Off, b.Len)))
	case "unchanged":
		cur := c.eval(arg(0))
		n := *c
		n.st = c.old
		n.noVars = true
		old := n.eval(arg(0))
		if _, isAll := arg(0).(*EAll); isAll {
			ca, co, cl, ok1 := c.arrOf(cur)
			oa, oo, _, ok2 := n.arrOf(old)
			if !ok1 || !ok2 {
				return c.fail("unchanged(x[..]) on non-byte slice")
			}
			if ca == oa {
				return TTrue
			}
			i := FreshBound("u", SInt)
			return Forall([]*Term{i}, Implies(And(Le(Num(0), i), Lt(i, cl)), Eq(Select(ca, Add(co, i)), Select(oa, Add(oo, i)))))
		}
		return c.e.valueEq(c.st, cur, old)
	case "ascii":
		a, o, l, ok := c.arrOf(c.eval(arg(0)))
		if !ok {
			return c.fail("ascii of non-string")
		}
		return App("tq_ascii", SBool, a, o, l)
	case "isConst":
		tv, ok := c.eval(arg(0)).(TypeV)
		if !ok {
			return c.fail("isConst: first argument must be a type")
		}
		v := c.term(arg(1))
		var alts []*Term
		for _, k := range c.e.constsOfType(tv.T) {
			alts = append(alts, Eq(v, Num(k)))
		}
		return Or(alts...)
	case "sumLen":
		// sumLen(args, k): total length of the first k strings of args
		s, ok := c.eval(arg(0)).(SliceV)
		if !ok {
			return c.fail("sumLen of non-slice")
		}
		k := c.term(arg(1))
		if s.Obj == nil {
			return Num(0)
		}
		av := c.e.heapGet(c.st, s.Obj).(ArrV)
		return App("tq_sumlen", SInt, av.Base, s.Off, k)
	case "sumInts":
		s, ok := c.eval(arg(0)).(SliceV)
		if !ok {
			return c.fail("sumInts of non-slice")
		}
		k := c.term(arg(1))
		if s.Obj == nil {
			return Num(0)
		}
		av := c.e.heapGet(c.st, s.Obj).(ArrV)
		return App("tq_sumint", SInt, av.Base, s.Off, k)
	case "str":
		// str(data, off, n): the string data[off:off+n] of a byte slice
		a, o, _, ok := c.arrOf(c.eval(arg(0)))
		if !ok {
			return c.fail("str: not bytes")
		}
		return StrV{Arr: a, Off: Add(o, c.term(arg(1))), Len: c.term(arg(2))}
	case "has":
		m, ok := c.eval(arg(0)).(MapV)
		if !ok {
			return c.fail("has: not a map")
		}
		if m.Obj == nil {
			return TFalse
		}
		return And(Not(m.Nil), Select(c.e.mapContent(c.st, m).Dom, c.e.keyTerm(c.st, c.eval(arg(1)))))
	case "upd":
		arr := c.term(arg(0))
		if arr.Sort == SMapRI {
			if iv, isI := c.eval(arg(1)).(IfaceV); isI {
				return Store(arr, c.e.ifaceRef(iv), c.term(arg(2)))
			}
		}
		return c.fail("upd: unsupported map")
	case "isZero":
		return c.e.isZeroValue(c.st, c.eval(arg(0)))
	case "litEq":
		s, ok := c.eval(arg(0)).(StrV)
		t, ok2 := c.eval(arg(1)).(StrV)
		if !ok || !ok2 {
			return c.fail("litEq: not strings")
		}
		return Bool(s.Lit != nil && t.Lit != nil && *s.Lit == *t.Lit)
	case "plainJSON":
		// plainJSON(v): encoding/json renders the value held by the interface v by its default
		// rules only — no type reachable from its dynamic type has a MarshalJSON or MarshalText
		// method (value or pointer receiver), every struct field is exported and carries no json
		// tag. Then the record is the field-by-field image of the value, which is what the
		// assumed contract of json.Marshal stands for. Decided on the types, no solver involved.
		i, ok := c.eval(arg(0)).(IfaceV)
		if !ok || i.Sym != nil || i.Dyn == nil {
			return c.fail("plainJSON: not a concrete value in an interface")
		}
		if why := customJSON(i.Dyn, map[types.Type]bool{}); why != "" {
			c.e.noteAssumption("plainJSON fails: " + why)
			return TFalse
		}
		return TTrue
	case "isLiteral":
		s, ok := c.eval(arg(0)).(StrV)
		if !ok {
			return c.fail("isLiteral: not a string")
		}
		return Bool(s.Lit != nil)
	case "anchored":
		// anchored(p): p is literally "^(?:" ++ x ++ ")$" (or "\\A(?:" ++ x ++ ")\\z") — the canonical
		// whole-string anchoring of an arbitrary pattern x
		s, ok := c.eval(arg(0)).(StrV)
		if !ok {
			return c.fail("anchored: not a string")
		}
		if len(s.Cat) >= 3 {
			first, last := s.Cat[0], s.Cat[len(s.Cat)-1]
			if first.Lit != nil && last.Lit != nil {
				if (*first.Lit == "^(?:" && *last.Lit == ")$") || (*first.Lit == "\\A(?:" && *last.Lit == ")\\z") {
					return TTrue
				}
			}
		}
		return TFalse
	case "mapNil":
		m, ok := c.eval(arg(0)).(MapV)
		if !ok {
			return c.fail("mapNil: not a map")
		}
		return c.e.mapValNil(c.st, m, c.eval(arg(1)))
	case "sameExcept":
		a, ok1 := c.eval(arg(0)).(MapV)
		n := *c
		n.st = c.old
		n.noVars = true
		if c.old == nil {
			return c.fail("sameExcept needs an old state")
		}
		b, ok2 := n.eval(arg(0)).(MapV)
		if !ok1 || !ok2 {
			return c.fail("sameExcept: not maps")
		}
		return c.e.mapSameExcept(c.st, c.old, a, b, c.eval(arg(1)))
	case "xor8":
		r := App("tq_xor8", SInt, c.term(arg(0)), c.term(arg(1)))
		r.Hi = big.NewInt(255)
		return r
	case "seqof":
		v0 := c.eval(arg(0))
		if sv, isStr := v0.(StrV); isStr && len(sv.Cat) >= 2 {
			// a string built by concatenation (s + t): its byte sequence is the concatenation
			// of the operands' sequences, by construction (strConcat)
			t := seqOf(sv.Cat[len(sv.Cat)-1].Arr, sv.Cat[len(sv.Cat)-1].Off, sv.Cat[len(sv.Cat)-1].Len)
			for k := len(sv.Cat) - 2; k >= 0; k-- {
				t = App("tq_cat", SSeq, seqOf(sv.Cat[k].Arr, sv.Cat[k].Off, sv.Cat[k].Len), t)
			}
			return t
		}
		a, o, l, ok := c.arrOf(v0)
		if !ok {
			return c.fail("seqof: not bytes")
		}
		return seqOf(a, o, l)
	case "cat":
		return App("tq_cat", SSeq, c.term(arg(0)), c.term(arg(1)))
	case "md5":
		return App("tq_md5", SSeq, c.term(arg(0)))
	case "eps":
		return App("tq_eps", SSeq)
	case "seq1":
		return App("tq_seq1", SSeq, c.term(arg(0)))
	case "be32":
		return App("tq_be32", SSeq, c.term(arg(0)))
	case "at":
		r := App("tq_at", SInt, c.term(arg(0)), c.term(arg(1)))
		r.Hi = big.NewInt(255)
		return r
	case "padBlock":
		return App("tq_padblock", SSeq, c.term(arg(0)), c.term(arg(1)))
	case "events":
		return Num(int64(len(c.st.events)))
	case "alloc":
		// alloc(): largest single allocation (elements) on this path
		if v, ok := c.st.ghost["alloc.max"].(*Term); ok {
			return v
		}
		return Num(0)
	case "tainted":
		mask := uint8(127)
		if len(e.Args) == 2 {
			k, _ := c.term(arg(1)).Int64()
			mask = uint8(k)
		}
		return Bool(c.e.taintBits(c.st, c.eval(arg(0)), 0)&mask != 0)
	case "oneOf":
		// oneOf(b, "=*"): the byte b is one of the bytes of the literal string
		lit, ok := c.eval(arg(1)).(StrV)
		var chars string
		if ok && lit.Lit != nil {
			chars = *lit.Lit
		} else if ok {
			if cs, ok2 := concreteString(lit); ok2 {
				chars = cs
			} else {
				return c.fail("oneOf: second argument must be a string literal")
			}
		} else {
			return c.fail("oneOf: second argument must be a string literal")
		}
		b := c.term(arg(0))
		var alts []*Term
		for i := 0; i < len(chars); i++ {
			alts = append(alts, Eq(b, Num(int64(chars[i]))))
		}
		return Or(alts...)
	case "ufb", "ufi":
		// uninterpreted function of a byte sequence: names "the" result of a deterministic,
		// read-only computation on those bytes (used in axiom clauses)
		nm, ok := c.eval(arg(0)).(StrV)
		if !ok || nm.Lit == nil {
			return c.fail("ufb/ufi: first argument must be a string literal")
		}
		srt := SBool
		pre := "tq_ufs_bool_"
		if e.Fun == "ufi" {
			srt, pre = SInt, "tq_ufs_int_"
		}
		return App(pre+sanitize(*nm.Lit), srt, c.term(arg(1)))
	case "maytaint":
		// as a goal nothing is to be shown: declaring a possible label is the safe direction
		return TTrue
	case "taintkeys":
		// as a goal: per-key contents of maps are not tracked; the summary is assumed
		// (and tested by a bounded probe where one is registered)
		c.e.noteAssumption("taint-key summary assumed, not proved: " + exprStr(e))
		return TTrue
	case "untainted":
		if os.Getenv("TQV_DEBUG") != "" {
			for i := range e.Args {
				v := c.eval(arg(i))
				fmt.Fprintf(os.Stderr, "untainted arg %d: %T bits=%d\n", i, v, c.e.taintBits(c.st, v, 0))
				if sl, ok := v.(SliceV); ok && sl.Obj != nil {
					fmt.Fprintf(os.Stderr, "   slice len=%s obj=%v content=%T %+v\n", sl.Len, sl.Obj, c.st.heap[sl.Obj], c.st.heap[sl.Obj])
				}
			}
		}
		for i := range e.Args {
			if c.e.taintBits(c.st, c.eval(arg(i)), 0)&^128 != 0 {
				return TFalse
			}
		}
		return TTrue
	case "taintkind":
		k, _ := c.term(arg(1)).Int64()
		return Bool(c.e.taintBits(c.st, c.eval(arg(0)), 0)&uint8(k) != 0)
	case "covers":
		// covers(obscure, m): every secret-bearing key of map m is among the literal strings of obscure
		m, ok := c.eval(arg(1)).(MapV)
		if !ok {
			return c.fail("covers: second argument must be a map")
		}
		if m.Obj == nil {
			return TTrue
		}
		lits, ok := c.literalElems(c.eval(arg(0)))
		if !ok {
			return TFalse
		}
		for k := range c.st.taintKey[m.Obj] {
			if !lits[k] {
				return TFalse
			}
		}
		return TTrue
	case "nolit":
		// nolit(keys, "a", "b"): none of the listed strings is an element of the slice keys
		sl, ok := c.eval(arg(0)).(SliceV)
		if !ok {
			return c.fail("nolit: first argument must be a slice of strings")
		}
		var want []string
		for i := 1; i < len(e.Args); i++ {
			s, ok := c.eval(arg(i)).(StrV)
			if !ok || s.Lit == nil {
				return c.fail("nolit: arguments must be string literals")
			}
			want = append(want, *s.Lit)
		}
		if sl.Obj == nil {
			return TTrue
		}
		if lits, ok := c.literalElems(sl); ok {
			for _, w := range want {
				if lits[w] {
					return TFalse
				}
			}
			return TTrue
		}
		for _, w := range want {
			if !c.st.sliceExcl[sl.Obj][w] {
				return TFalse
			}
		}
		return TTrue
	case "avoids":
		// avoids(keys, m): none of the literal strings of keys names a secret-bearing key of map m
		m, ok := c.eval(arg(1)).(MapV)
		if !ok {
			return c.fail("avoids: second argument must be a map")
		}
		if m.Obj == nil || len(c.st.taintKey[m.Obj]) == 0 {
			return TTrue
		}
		kv := c.eval(arg(0))
		lits, ok := c.literalElems(kv)
		if !ok {
			if sl, isSl := kv.(SliceV); isSl && sl.Obj != nil {
				for k := range c.st.taintKey[m.Obj] {
					if !c.st.sliceExcl[sl.Obj][k] {
						return TFalse
					}
				}
				return TTrue
			}
			return TFalse
		}
		for k := range lits {
			if c.st.taintKey[m.Obj][k] {
				return TFalse
			}
		}
		return TTrue
	}
	if sf, ok := c.e.specFuns[e.Fun]; ok {
		if len(sf.Params) != len(e.Args) {
			return c.fail("spec %s: want %d arguments, got %d", e.Fun, len(sf.Params), len(e.Args))
		}
		n := *c
		n.bind = make(map[string]Value, len(c.bind)+len(sf.Params))
		for k, v := range c.bind {
			n.bind[k] = v
		}
		for i, p := range sf.Params {
			n.bind[p] = c.eval(e.Args[i])
		}
		return n.eval(sf.Body)
	}
	// conversions to named types: T(x)
	if v := c.identQuiet(e.Fun); v != nil {
		if _, isT := v.(TypeV); isT && len(e.Args) == 1 {
			return c.eval(e.Args[0])
		}
	}
	return c.fail("unknown function %s", e.Fun)
}

func (c *EvalCtx) identQuiet(name string) Value {
	if strings.Contains(name, ".") {
		parts := strings.SplitN(name, ".", 2)
		if p := c.findPkg(parts[0]); p != nil {
			if v, ok := c.lookupPkgObj(p, parts[1]); ok {
				return v
			}
		}
		return nil
	}
	if v, ok := c.lookupPkgObj(c.pkg, name); ok {
		return v
	}
	if sp := c.e.ssaPkgs[modPath]; sp != nil {
		if v, ok := c.lookupPkgObj(sp.Pkg, name); ok {
			return v
		}
	}
	return nil
}

func seqOf(arr, off, ln *Term) *Term {
	return App("tq_seqof", SSeq, arr, off, ln)
}

// constsOfType: values of all package-level constants declared with named type t.
func (e *Engine) constsOfType(t types.Type) []int64 {
	n, ok := t.(*types.Named)
	if !ok || n.Obj().Pkg() == nil {
		return nil
	}
	var out []int64
	seen := map[int64]bool{}
	sc := n.Obj().Pkg().Scope()
	for _, name := range sc.Names() {
		if cst, ok := sc.Lookup(name).(*types.Const); ok && types.Identical(cst.Type(), t) {
			if v, ok := constant.Int64Val(cst.Val()); ok && !seen[v] {
				seen[v] = true
				out = append(out, v)
			}
		}
	}
	return out
}

func (e *Engine) ghostSort(name string) string {
	if s, ok := e.ghostSorts[name]; ok {
		return s
	}
	return SInt
}

func (e *Engine) freshGhost(st *State, name string) Value {
	if e.ghostSort(name) == "bytes" {
		return e.freshStr(st, "ghost_"+name)
	}
	return e.freshVar("ghost_"+name, e.ghostSort(name))
}

func (e *Engine) ghostInit(st *State, name string) Value {
	v := e.freshGhost(st, name)
	// ghost variables are created on first use in the *initial* snapshot too:
	// share through initGhost so that old(ghost.x) and ghost.x agree until modified
	if g, ok := e.initGhost[name]; ok {
		st.ghost[name] = g
		return g
	}
	e.initGhost[name] = v
	st.ghost[name] = v
	return v
}

// ---------- locations ----------

type Loc struct {
	Ptr   *PtrV
	Ghost string
	Var   string
	All   *SliceV // x[..]: content of the backing array
}

func (c *EvalCtx) loc(x Expr) (Loc, bool) {
	switch e := x.(type) {
	case *EIdent:
		if !c.noVars {
			if v, ok := c.st.vars[e.Name]; ok {
				if va, isAddr := v.(varAddr); isAddr {
					p := va.P
					return Loc{Ptr: &p}, true
				}
				return Loc{Var: e.Name}, true
			}
		}
		if _, ok := c.bind[e.Name]; ok {
			return Loc{Var: e.Name}, true
		}
	case *EUnary:
		if e.Op == "*" {
			if p, ok := c.eval(e.X).(PtrV); ok && p.Obj != nil {
				return Loc{Ptr: &p}, true
			}
		}
	case *EField:
		if id, ok := e.X.(*EIdent); ok && id.Name == "ghost" {
			return Loc{Ghost: e.Name}, true
		}
		base := c.eval(e.X)
		var p PtrV
		switch b := base.(type) {
		case PtrV:
			p = b
		default:
			bl, ok := c.loc(e.X)
			if !ok || bl.Ptr == nil {
				return Loc{}, false
			}
			p = *bl.Ptr
		}
		if p.Obj == nil {
			return Loc{}, false
		}
		st, ok := under(p.Elem).(*types.Struct)
		if !ok {
			return Loc{}, false
		}
		for i := 0; i < st.NumFields(); i++ {
			if st.Field(i).Name() == e.Name {
				np := PtrV{Obj: p.Obj, Path: append(append([]interface{}{}, p.Path...), i), Nil: TFalse, Elem: st.Field(i).Type()}
				return Loc{Ptr: &np}, true
			}
		}
		// promoted field through embedded pointer/struct
		for i := 0; i < st.NumFields(); i++ {
			if !st.Field(i).Embedded() {
				continue
			}
			ft := st.Field(i).Type()
			np := PtrV{Obj: p.Obj, Path: append(append([]interface{}{}, p.Path...), i), Nil: TFalse, Elem: ft}
			var inner PtrV
			if _, isPtr := under(ft).(*types.Pointer); isPtr {
				ip, ok := c.e.loadPtr(c.st, np).(PtrV)
				if !ok || ip.Obj == nil {
					continue
				}
				inner = ip
			} else {
				inner = np
			}
			if ist, ok := under(inner.Elem).(*types.Struct); ok {
				for j := 0; j < ist.NumFields(); j++ {
					if ist.Field(j).Name() == e.Name {
						fp := PtrV{Obj: inner.Obj, Path: append(append([]interface{}{}, inner.Path...), j), Nil: TFalse, Elem: ist.Field(j).Type()}
						return Loc{Ptr: &fp}, true
					}
				}
			}
		}
	case *ECall:
		if e.Fun == "deref" && len(e.Args) == 1 {
			// deref(x): the variable a pointer stored in interface x points to
			if iv, ok := c.eval(e.Args[0]).(IfaceV); ok && iv.Sym == nil {
				if p, isPtr := iv.V.(PtrV); isPtr && p.Obj != nil {
					return Loc{Ptr: &p}, true
				}
			}
		}
	case *EAll:
		if s, ok := c.eval(e.X).(SliceV); ok {
			return Loc{All: &s}, true
		}
	case *EIndex:
		if s, ok := c.eval(e.X).(SliceV); ok && s.Obj != nil {
			p := PtrV{Obj: s.Obj, Path: []interface{}{Add(s.Off, c.term(e.I))}, Nil: TFalse, Elem: s.Elem}
			return Loc{Ptr: &p}, true
		}
	}
	return Loc{}, false
}

func (c *EvalCtx) havoc(l Loc, hint string) {
	switch {
	case l.Ptr != nil:
		if mv, isMap := c.e.loadPtr(c.st, *l.Ptr).(MapV); isMap && mv.Obj != nil {
			// a map-typed location: the map's content changes, the reference stays
			card := c.e.freshVar(hint+"_card", SInt)
			c.st.assume(Le(Num(0), card))
			c.st.assume(Le(card, NumB(maxLen)))
			c.st.heap[mv.Obj] = MapC{KeySort: SInt, Dom: c.e.freshVar(hint+"_dom", SSet), Card: card, ValT: mv.T.Elem(), RestID: c.e.freshName(hint + "_rest")}
			return
		}
		c.e.storePtr(c.st, *l.Ptr, c.e.fresh(c.st, l.Ptr.Elem, hint))
	case l.Ghost != "":
		c.st.ghost[l.Ghost] = c.e.freshGhost(c.st, l.Ghost)
	case l.All != nil:
		if l.All.Obj != nil {
			old := c.e.heapGet(c.st, l.All.Obj).(ArrV)
			nv := c.e.freshArr(c.st, old.Elem, hint)
			if old.Base != nil && nv.Base != nil {
				// only the window [off, off+len) changes
				nv.Base = App(spliceFn(old.Base.Sort), old.Base.Sort, old.Base, l.All.Off, nv.Base, l.All.Off, l.All.Len)
			}
			c.st.heap[l.All.Obj] = nv
		}
	case l.Var != "":
		if c.setVar != nil {
			// type looked up by the callback
			c.setVar(l.Var, nil)
		}
	}
}

func spliceFn(srt string) string {
	if srt == SArrS {
		return "tq_spliceS"
	}
	return "tq_splice"
}

// assume adds a clause to the state; equalities whose left side is a location
// holding a reference-shaped value (slice header, pointer) are strong updates.
func (c *EvalCtx) assume(x Expr) {
	if c.nerr == nil {
		s := c.soft()
		func() {
			defer func() {
				if r := recover(); r != nil {
					*s.nerr++
					*s.lastErr = fmt.Sprint(r)
				}
			}()
			s.assume(x)
		}()

		if *s.nerr > 0 {
			c.e.assumeSkips++
			c.e.noteAssumption("clause not assumed because it cannot be evaluated here: " + exprStr(x) + " (" + *s.lastErr + ")")
		}
		return
	}
	switch e := x.(type) {
	case *ECall:
		if e.Fun == "sameExcept" && len(e.Args) == 2 && c.old != nil {
			m, ok := c.eval(e.Args[0]).(MapV)
			n := *c
			n.st = c.old
			n.noVars = true
			mo, ok2 := n.eval(e.Args[0]).(MapV)
			if ok && ok2 && m.Obj != nil && m.Obj == mo.Obj {
				oldC := c.e.mapContent(c.old, mo)
				k := c.e.keyTerm(c.st, c.eval(e.Args[1]))
				present := c.e.freshVar("present", SBool)
				was := Select(oldC.Dom, k)
				nc := oldC
				var val Value
				tmp := &State{}
				val = c.e.fresh(tmp, oldC.ValT, "entry")
				for _, f := range tmp.pc {
					c.st.assume(f)
				}
				nc.Assoc = append(append([]MapEntry(nil), oldC.Assoc...), MapEntry{Key: k, Val: val})
				nc.Dom = Store(oldC.Dom, k, present)
				nc.Card = Add(oldC.Card, Sub(Ite(present, Num(1), Num(0)), Ite(was, Num(1), Num(0))))
				c.st.heap[m.Obj] = nc
				return
			}
		}
		if (e.Fun == "tainted" || e.Fun == "maytaint") && len(e.Args) >= 1 {
			bits := uint8(1)
			if len(e.Args) == 2 {
				k, _ := c.term(e.Args[1]).Int64()
				bits = uint8(k)
			}
			c.taintExpr(e.Args[0], bits)
			return
		}
		if e.Fun == "nolit" && len(e.Args) >= 2 {
			if sl, ok := c.eval(e.Args[0]).(SliceV); ok && sl.Obj != nil {
				ex := map[string]bool{}
				for k := range c.st.sliceExcl[sl.Obj] {
					ex[k] = true
				}
				for _, ka := range e.Args[1:] {
					if s, ok := c.eval(ka).(StrV); ok && s.Lit != nil {
						ex[*s.Lit] = true
					}
				}
				if c.st.sliceExcl == nil {
					c.st.sliceExcl = map[*Obj]map[string]bool{}
				}
				c.st.sliceExcl[sl.Obj] = ex
			}
			return
		}
		if e.Fun == "taintkeys" && len(e.Args) >= 2 {
			if m, ok := c.eval(e.Args[0]).(MapV); ok && m.Obj != nil {
				for _, ka := range e.Args[1:] {
					if s, ok := c.eval(ka).(StrV); ok && s.Lit != nil {
						c.st.taintKeysAdd(m.Obj, *s.Lit)
					}
				}
			}
			return
		}
		if e.Fun == "fresh" && len(e.Args) == 1 {
			// assumed freshness of a callee result: the backing object is new to the caller
			switch s := c.eval(e.Args[0]).(type) {
			case SliceV:
				if s.Obj != nil {
					s.Obj.Fresh = true
				}
			case PtrV:
				if s.Obj != nil {
					s.Obj.Fresh = true
				}
			}
			return
		}
	case *EBinary:
		if e.Op == "&&" {
			c.assume(e.X)
			c.assume(e.Y)
			return
		}
		if e.Op == "==>" {
			// freshness claims in the consequent: mark the objects (harmless when the
			// antecedent is false) and assume the rest
			if rest, changed := c.stripFresh(e.Y); changed {
				if rest == nil {
					return
				}
				c.assume(&EBinary{"==>", e.X, rest})
				return
			}
		}
		if e.Op == "==>" && mentionsTaint(e.Y) {
			// taint labels live in the executor, not in the solver: the consequent is applied
			// unless the antecedent is definitely false (over-approximation of the labels)
			if p := c.boolean(e.X); !p.IsFalse() {
				c.assume(e.Y)
			}
			return
		}
		if e.Op == "==>" && c.pend != nil && c.needsStrong(e.Y) {
			p := c.boolean(e.X)
			switch {
			case p.IsTrue():
				c.assume(e.Y)
			case p.IsFalse():
			default:
				*c.pend = append(*c.pend, pendingFork{e.X, e.Y})
			}
			return
		}
		if e.Op == "==" {
			if l, ok := c.loc(e.X); ok {
				rhs := c.eval(e.Y)
				if sv, isStr := rhs.(StrV); isStr && l.Ghost != "" {
					c.st.ghost[l.Ghost] = sv
					return
				}
				switch rhs.(type) {
				case SliceV, PtrV, MapV:
					switch {
					case l.Ptr != nil:
						// same backing object already: the equality is an ordinary fact
						if cur, ok := c.e.loadPtr(c.st, *l.Ptr).(SliceV); ok {
							if rs, ok2 := rhs.(SliceV); ok2 && cur.Obj == rs.Obj && cur.Obj != nil {
								c.st.assume(c.e.sliceGeomEq(cur, rs))
								return
							}
						}
						c.e.storePtr(c.st, *l.Ptr, rhs)
						return
					case l.Var != "" && c.setVar != nil:
						if c.setVar(l.Var, rhs) {
							return
						}
					}
				}
			}
		}
	}
	before := *c.nerr
	t := c.boolean(x)
	if os.Getenv("TQV_DEBUG") == "assume" {
		fmt.Fprintf(os.Stderr, "assume %s => %s (errs %d->%d) dead=%v\n", exprStr(x), t, before, *c.nerr, c.st.dead)
	}
	if *c.nerr == before {
		c.st.assume(t)
	}
}

// isZeroValue: the value is the zero value of its type (structurally).
func (e *Engine) isZeroValue(st *State, v Value) *Term {
	switch x := v.(type) {
	case *Term:
		if x.Sort == SBool {
			return Not(x)
		}
		if x.Sort == SInt {
			return Eq(x, Num(0))
		}
		return TFalse
	case StrV:
		return Eq(x.Len, Num(0))
	case SliceV:
		return x.Nil
	case PtrV:
		return x.Nil
	case MapV:
		return x.Nil
	case IfaceV:
		return e.ifaceNil(x)
	case FuncV:
		if x.Nil != nil {
			return x.Nil
		}
		return TFalse
	case StructV:
		var cs []*Term
		for _, f := range x.F {
			cs = append(cs, e.isZeroValue(st, f))
		}
		return And(cs...)
	case OpaqueV:
		return App("tq_iszero", SBool, x.Ref)
	case ArrV:
		return TFalse
	}
	return TFalse
}

// taintExpr labels the value denoted by x (a location, a result or a parameter).
func (c *EvalCtx) taintExpr(x Expr, bits uint8) {
	if l, ok := c.loc(x); ok {
		switch {
		case l.Ptr != nil:
			c.e.storePtr(c.st, *l.Ptr, c.e.taintValue(c.st, c.e.loadPtr(c.st, *l.Ptr), bits))
			return
		case l.Var != "":
			if v, ok := c.bind[l.Var]; ok {
				nv := c.e.taintValue(c.st, v, bits)
				c.bind[l.Var] = nv
				if c.setVar != nil {
					c.setVar(l.Var, nv)
				}
				return
			}
		}
	}
	// field path rooted at a struct-valued binding (value receivers and parameters)
	if nv, ok := c.taintBound(x, bits); ok {
		_ = nv
		return
	}
	c.e.taintValue(c.st, c.eval(x), bits)
}

// taintBound rewrites the bound variable at the root of a field path x.f.g with the labelled leaf.
func (c *EvalCtx) taintBound(x Expr, bits uint8) (Value, bool) {
	var path []string
	cur := x
	for {
		f, ok := cur.(*EField)
		if !ok {
			break
		}
		path = append([]string{f.Name}, path...)
		cur = f.X
	}
	id, ok := cur.(*EIdent)
	if !ok || len(path) == 0 {
		return nil, false
	}
	root, ok := c.bind[id.Name]
	if !ok {
		return nil, false
	}
	var rec func(v Value, p []string) (Value, bool)
	rec = func(v Value, p []string) (Value, bool) {
		if len(p) == 0 {
			return c.e.taintValue(c.st, v, bits), true
		}
		sv, ok := v.(StructV)
		if !ok {
			return nil, false
		}
		for i := 0; i < sv.T.NumFields(); i++ {
			if sv.T.Field(i).Name() == p[0] {
				nf, ok := rec(sv.F[i], p[1:])
				if !ok {
					return nil, false
				}
				f := append([]Value(nil), sv.F...)
				f[i] = nf
				return StructV{T: sv.T, F: f}, true
			}
			// promoted fields of embedded structs
			if sv.T.Field(i).Embedded() {
				if _, isS := sv.F[i].(StructV); isS {
					if nf, ok := rec(sv.F[i], p); ok {
						f := append([]Value(nil), sv.F...)
						f[i] = nf
						return StructV{T: sv.T, F: f}, true
					}
				}
			}
		}
		return nil, false
	}
	nv, ok := rec(root, path)
	if !ok {
		return nil, false
	}
	c.bind[id.Name] = nv
	if c.setVar != nil {
		c.setVar(id.Name, nv)
	}
	return nv, true
}

// literalElems: the literal strings held by a (variadic) slice with concrete length.
func (c *EvalCtx) literalElems(v Value) (map[string]bool, bool) {
	out := map[string]bool{}
	s, ok := v.(SliceV)
	if !ok {
		return nil, false
	}
	if s.Obj == nil {
		return out, true
	}
	n, ok := s.Len.Int64()
	if !ok || n > 64 {
		return nil, false
	}
	av, ok := c.e.heapGet(c.st, s.Obj).(ArrV)
	if !ok {
		return nil, false
	}
	for i := int64(0); i < n; i++ {
		el := av.get(c.e, c.st, Add(s.Off, Num(i)))
		sv, isStr := el.(StrV)
		if !isStr {
			return nil, false
		}
		lit := sv.Lit
		if lit == nil {
			// literal strings stored into an SMT array lose their Go-level literal: recover
			// short constants from the store chain
			if str, ok := concreteString(sv); ok {
				lit = &str
			}
		}
		if lit == nil {
			return nil, false
		}
		out[*lit] = true
	}
	return out, true
}

// concreteString reads back a string whose length and bytes are all constants.
func concreteString(s StrV) (string, bool) {
	n, ok := s.Len.Int64()
	if !ok || n > 256 {
		return "", false
	}
	b := make([]byte, n)
	for i := int64(0); i < n; i++ {
		t := Select(s.Arr, Add(s.Off, Num(i)))
		k, ok := t.Int64()
		if !ok {
			return "", false
		}
		b[i] = byte(k)
	}
	return string(b), true
}

func mentionsTaint(x Expr) bool {
	s := exprStr(x)
	return strings.Contains(s, "tainted(") || strings.Contains(s, "taintkeys(") || strings.Contains(s, "nolit(") || strings.Contains(s, "maytaint(")
}

// customJSON reports the first reason why encoding/json would not render t by its default
// field-by-field rules ("" if none).
func customJSON(t types.Type, seen map[types.Type]bool) string {
	if seen[t] {
		return ""
	}
	seen[t] = true
	for _, mt := range []types.Type{t, types.NewPointer(t)} {
		ms := types.NewMethodSet(mt)
		for k := 0; k < ms.Len(); k++ {
			if n := ms.At(k).Obj().Name(); n == "MarshalJSON" || n == "MarshalText" {
				return fmt.Sprintf("%s has a %s method", typeStr(t), n)
			}
		}
	}
	switch u := t.Underlying().(type) {
	case *types.Struct:
		for k := 0; k < u.NumFields(); k++ {
			f := u.Field(k)
			if !f.Exported() {
				return fmt.Sprintf("field %s.%s is not exported", typeStr(t), f.Name())
			}
			if strings.Contains(u.Tag(k), "json:") {
				return fmt.Sprintf("field %s.%s carries a json tag", typeStr(t), f.Name())
			}
			if why := customJSON(f.Type(), seen); why != "" {
				return why
			}
		}
	case *types.Pointer:
		return customJSON(u.Elem(), seen)
	case *types.Slice:
		return customJSON(u.Elem(), seen)
	case *types.Array:
		return customJSON(u.Elem(), seen)
	case *types.Map:
		if why := customJSON(u.Key(), seen); why != "" {
			return why
		}
		return customJSON(u.Elem(), seen)
	case *types.Interface, *types.Chan, *types.Signature:
		return fmt.Sprintf("%s is not a plain data type", typeStr(t))
	}
	return ""
}
