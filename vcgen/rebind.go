package main

import (
	"fmt"
	"go/ast"
	"go/types"
	"os"
	"path/filepath"
	"regexp"
	"sort"
	"strings"
	"time"

	"golang.org/x/tools/go/ssa"
)

// Re-binding of local names (robustness against harmless renames).
//
// Loop invariants — and a few call-site clauses (`before` / `after`) — name local variables of
// the function. A loop invariant is a proof hint, not part of the specification: any
// reading of its identifiers under which the invariant is inductive and carries the
// post-conditions proves the same contract. So when a clause names a local that no longer
// exists (the code renamed it), the generator searches the function's other locals for a
// re-binding of the missing names under which EVERY obligation of the function is generated
// without an evaluation error and is discharged; the first such re-binding is used and is
// reported as an assumption-free note in the evidence. For names that occur in specification
// clauses (before / after / requires / ensures) the re-binding must in addition be unique
// after the type filter: the solver never chooses the meaning of a specification clause.

var identRe = regexp.MustCompile(`[A-Za-z_][A-Za-z_0-9]*`)

func clauseIdents(cls []*Clause, out map[string]bool) {
	for _, cl := range cls {
		for _, id := range identRe.FindAllString(cl.Text, -1) {
			out[id] = true
		}
	}
}

func (e *Engine) localNames(fn *ssa.Function) []string {
	seen := map[string]bool{}
	for _, b := range fn.Blocks {
		for _, ins := range b.Instrs {
			if d, ok := ins.(*ssa.DebugRef); ok {
				if id, ok := d.Expr.(*ast.Ident); ok {
					if v, isVar := d.Object().(*types.Var); isVar && !v.IsField() {
						if syn := fn.Syntax(); syn == nil || (v.Pos() >= syn.Pos() && v.Pos() <= syn.End()) {
							seen[id.Name] = true
						}
					}
				}
			}
		}
	}
	for _, p := range fn.Params {
		delete(seen, p.Name())
	}
	// captured variables of a closure are named by its contract like locals
	for _, fv := range fn.FreeVars {
		seen[fv.Name()] = true
	}
	var out []string
	for n := range seen {
		if n != "_" {
			out = append(out, n)
		}
	}
	sort.Strings(out)
	return out
}

// regenerate the obligations of one function from a clean slate (marks taken before its first generation)
func (e *Engine) regen(fn *ssa.Function, con *Contract, mark, errMark, pathMark int, alias map[string]string) (evalFailed bool) {
	e.obls = e.obls[:mark]
	e.errors = e.errors[:errMark]
	e.pathCount = pathMark
	key := funcKey(fn)
	if alias == nil {
		delete(e.localAlias, key)
	} else {
		e.localAlias[key] = alias
	}
	e.unkIdents = map[string]bool{}
	skips := e.assumeSkips
	e.verifyFunction(fn, con)
	if e.assumeSkips > skips {
		// an assumed clause (requires, callee ensures) could not be evaluated under this reading
		return true
	}
	if len(e.errors) > errMark {
		if os.Getenv("TQV_DEBUG") == "rebind" {
			fmt.Fprintf(os.Stderr, "   regen %v: %v\n", alias, e.errors[errMark:])
		}
		return true
	}
	for _, o := range e.obls[mark:] {
		if strings.Contains(o.Desc, "clause cannot be evaluated") {
			if os.Getenv("TQV_DEBUG") == "rebind" {
				fmt.Fprintf(os.Stderr, "   regen %v: %s: %s\n", alias, o.Name, o.Desc)
			}
			return true
		}
	}
	return false
}

func (e *Engine) rebindLocals(cfg RunConfig, fn *ssa.Function, con *Contract, mark, errMark, pathMark int) {
	key := funcKey(fn)
	hint, spec := map[string]bool{}, map[string]bool{}
	for _, cls := range con.Loops {
		clauseIdents(cls, hint)
	}
	for _, sc := range con.Cases {
		clauseIdents(sc.Requires, spec)
		clauseIdents(sc.Ensures, spec)
	}
	for _, cls := range con.Asserts {
		clauseIdents(cls, spec)
	}
	for _, a := range con.Afters {
		for _, id := range identRe.FindAllString(exprStr(a.E), -1) {
			spec[id] = true
		}
	}
	var missing []string
	for n := range e.unkIdents {
		if hint[n] || spec[n] {
			missing = append(missing, n)
		}
	}
	sort.Strings(missing)
	if len(missing) == 0 {
		return
	}
	tryDrop := func() {
		// last resort: loop invariants that cannot be evaluated are not used at all. Whatever
		// they were needed for must then follow from the inferred bounds (autoinv.go) and the
		// remaining clauses; specification clauses are never dropped.
		e.dropHints[key] = true
		if !e.regen(fn, con, mark, errMark, pathMark, nil) {
			work := filepath.Join(cfg.Work, "rebind_"+sanitize(key))
			s := newSolver(work, 4*time.Second)
			res := e.dischargeAll(s, e.obls[mark:], cfg.Workers)
			os.RemoveAll(work)
			ok := true
			for _, r := range res {
				if r.Kind != "cover" && r.Status != "proved" {
					ok = false
				}
			}
			if ok {
				e.noteAssumption(fmt.Sprintf("loop invariants of %s that name locals the code no longer has (%s) are not used: every obligation of the function is discharged without them", key, strings.Join(missing, ", ")))
				if cfg.Verbose {
					fmt.Fprintf(os.Stderr, "  unused hints in %s: %s\n", key, strings.Join(missing, ", "))
				}
				return
			}
		}
		delete(e.dropHints, key)
		e.regen(fn, con, mark, errMark, pathMark, nil)
	}
	if len(missing) > 3 {
		tryDrop()
		return
	}
	mentioned := map[string]bool{}
	for n := range hint {
		mentioned[n] = true
	}
	for n := range spec {
		mentioned[n] = true
	}
	var cands []string
	for _, n := range e.localNames(fn) {
		if !mentioned[n] {
			cands = append(cands, n)
		}
	}
	if len(cands) == 0 {
		tryDrop()
		return
	}
	// enumerate injective assignments missing -> cands (bounded)
	var maps []map[string]string
	var rec func(i int, cur map[string]string, used map[string]bool)
	rec = func(i int, cur map[string]string, used map[string]bool) {
		if len(maps) >= 400 {
			return
		}
		if i == len(missing) {
			m := map[string]string{}
			for k, v := range cur {
				m[k] = v
			}
			maps = append(maps, m)
			return
		}
		for _, c := range cands {
			if used[c] {
				continue
			}
			cur[missing[i]] = c
			used[c] = true
			rec(i+1, cur, used)
			delete(cur, missing[i])
			used[c] = false
		}
	}
	rec(0, map[string]string{}, map[string]bool{})
	// 1. type filter: every clause must evaluate
	var survivors []map[string]string
	for _, m := range maps {
		if !e.regen(fn, con, mark, errMark, pathMark, m) {
			survivors = append(survivors, m)
		}
	}
	// specification names need a unique reading
	for _, n := range missing {
		if !spec[n] {
			continue
		}
		vals := map[string]bool{}
		for _, m := range survivors {
			vals[m[n]] = true
		}
		if len(vals) != 1 {
			survivors = nil
		}
	}
	if os.Getenv("TQV_DEBUG") == "rebind" {
		fmt.Fprintf(os.Stderr, "rebind %s: missing=%v cands=%v maps=%d survivors=%v\n", key, missing, cands, len(maps), survivors)
	}
	if len(survivors) > 60 {
		survivors = survivors[:60]
	}
	// 2. the proof must go through
	for _, m := range survivors {
		e.regen(fn, con, mark, errMark, pathMark, m)
		work := filepath.Join(cfg.Work, "rebind_"+sanitize(key))
		// short time limit, no second race: this only selects a reading; the obligations are
		// discharged again with the normal limits in the main phase
		s := newSolver(work, 4*time.Second)
		res := e.dischargeAll(s, e.obls[mark:], cfg.Workers)
		ok := true
		for _, r := range res {
			if r.Kind != "cover" && r.Status != "proved" {
				ok = false
				break
			}
		}
		os.RemoveAll(work)
		if os.Getenv("TQV_DEBUG") == "rebind" {
			for _, r := range res {
				if r.Kind != "cover" && r.Status != "proved" {
					fmt.Fprintf(os.Stderr, "   %v: fails %s (%s)\n", m, r.Name, r.Status)
				}
			}
		}
		if ok {
			var parts []string
			for _, n := range missing {
				parts = append(parts, n+" -> "+m[n])
			}
			e.noteAssumption(fmt.Sprintf("local names in the contract of %s re-bound after a rename in the code (%s): every obligation of the function is generated and discharged under this reading", key, strings.Join(parts, ", ")))
			if cfg.Verbose {
				fmt.Fprintf(os.Stderr, "  re-bound locals of %s: %s\n", key, strings.Join(parts, ", "))
			}
			return
		}
	}
	// no reading works: try without the hints, else keep the original failure
	e.regen(fn, con, mark, errMark, pathMark, nil)
	tryDrop()
}
