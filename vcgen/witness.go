package main

// Witness scenarios: for obligations whose failure cannot be turned into inputs by the
// generic candidate search (histories of calls, maps, interfaces, library semantics), a
// hand-written scenario taken from the property text is replayed against the real code
// (go test -overlay). They are labelled heuristic in the replay file.

import (
	"bytes"
	"encoding/json"
	"os"
	"os/exec"
	"path/filepath"
	"strings"
)

type WitnessEntry struct {
	Obligation string `json:"obligation"`
	File       string `json:"file"`
	PkgDir     string `json:"pkgdir"`
}

func (e *Engine) runWitness(cfg RunConfig, name string) (found bool, violated bool, rec map[string]interface{}) {
	var idx []WitnessEntry
	if !loadJSON("/verif/witness/index.json", &idx) {
		return false, false, nil
	}
	for _, w := range idx {
		if w.Obligation != name {
			continue
		}
		src := filepath.Join("/verif/witness", w.File)
		dir := filepath.Join(cfg.Work, "replay")
		os.MkdirAll(dir, 0o755)
		target := filepath.Join(cfg.Repo, w.PkgDir, "zz_tqv_witness_test.go")
		ov := map[string]map[string]string{"Replace": {target: src}}
		ob, _ := json.Marshal(ov)
		ovFile := filepath.Join(dir, "overlay_w_"+sanitize(name)+".json")
		os.WriteFile(ovFile, ob, 0o644)
		pkg := "./" + w.PkgDir
		if w.PkgDir == "" {
			pkg = "."
		}
		cmd := exec.Command("go", "test", "-overlay", ovFile, "-vet=off", "-v", "-count=1", "-timeout", "60s", "-run", "^TestTqvWitness$", pkg)
		cmd.Dir = cfg.Repo
		cmd.Env = append(os.Environ(), "GOFLAGS=-mod=mod", "GOPROXY=off", "GOSUMDB=off", "GOTOOLCHAIN=local")
		var out bytes.Buffer
		cmd.Stdout = &out
		cmd.Stderr = &out
		cmd.Run()
		rec = map[string]interface{}{"witness_file": src, "kind": "heuristic witness scenario (hand-written from the property text), replayed on the real code"}
		for _, line := range strings.Split(out.String(), "\n") {
			if strings.HasPrefix(line, "TQV-WITNESS ") {
				var m map[string]interface{}
				if json.Unmarshal([]byte(line[len("TQV-WITNESS "):]), &m) == nil {
					rec["observed"] = m
					if v, ok := m["violated"].(bool); ok {
						return true, v, rec
					}
				}
			}
		}
		if strings.Contains(out.String(), "panic:") && !strings.Contains(out.String(), "test timed out") {
			rec["observed"] = map[string]interface{}{"panic": tail(out.String(), 1200)}
			return true, true, rec
		}
		rec["output"] = tail(out.String(), 1200)
		return true, false, rec
	}
	return false, false, nil
}
