package main

// Witness scenarios: for obligations whose failure cannot be turned into inputs by the
// generic candidate search (histories of calls, maps, interfaces, library semantics), a
// hand-written scenario taken from the property text is replayed against the real code
// (go test -overlay). They are labelled heuristic in the replay file.

import (
	"bytes"
	"encoding/json"
	"os"
	"os/exec"
	"path/filepath"
	"strings"
	"sync"
)

type WitnessEntry struct {
	Obligation string   `json:"obligation"`
	File       string   `json:"file"`
	PkgDir     string   `json:"pkgdir"`
	Prefixes   []string `json:"prefixes,omitempty"` // generic scenario: any obligation whose name starts with one of these
	Probe      string   `json:"probe,omitempty"`    // property id: run on every check of that property (bounded test of an assumed clause)
	Assumes    string   `json:"assumes,omitempty"`
}

// runProbes: assumed clauses that the generator cannot check (executor-level summaries) are
// tested on the real code on every run — bounded evidence, never counted as proved.
func (e *Engine) runProbes(cfg RunConfig) (ran []string, violated []string, files []string) {
	var idx []WitnessEntry
	if !loadJSON("/verif/witness/index.json", &idx) {
		return
	}
	for _, w := range idx {
		if !probeFor(w.Probe, cfg.Prop) {
			continue
		}
		found, bad, rec := e.runWitness(cfg, w.Obligation)
		if !found {
			continue
		}
		ran = append(ran, w.Obligation+": "+w.Assumes)
		if bad {
			f := filepath.Join(cfg.Work, "replay_probe_"+sanitize(tailName(w.Obligation))+".json")
			rec["obligation"] = w.Obligation
			rec["assumed_clause"] = w.Assumes
			rec["verdict"] = "violation (bounded probe of an assumed clause failed on the real code)"
			b, _ := json.MarshalIndent(rec, "", " ")
			os.WriteFile(f, b, 0o644)
			violated = append(violated, w.Obligation)
			files = append(files, f)
		}
	}
	return
}

// probeFor: a probe may serve several properties ("C13,C12").
func probeFor(list, prop string) bool {
	for _, p := range strings.Split(list, ",") {
		if strings.TrimSpace(p) == prop {
			return true
		}
	}
	return false
}

func (e *Engine) runWitness(cfg RunConfig, name string) (found bool, violated bool, rec map[string]interface{}) {
	var idx []WitnessEntry
	if !loadJSON("/verif/witness/index.json", &idx) {
		return false, false, nil
	}
	// exact entries first, then generic scenarios registered by name prefix
	var cands []WitnessEntry
	for _, w := range idx {
		if w.Obligation == name {
			cands = append(cands, w)
		}
	}
	if len(cands) == 0 {
		for _, w := range idx {
			for _, p := range w.Prefixes {
				if strings.HasPrefix(name, p) {
					cands = append(cands, w)
					break
				}
			}
		}
	}
	// every candidate scenario is run (results are cached per scenario file for this run);
	// the first one that the real code violates is the replay
	for _, w := range cands {
		v, r := e.runWitnessFile(cfg, w, name)
		found = true
		rec = r
		if v {
			return true, true, r
		}
	}
	return found, false, rec
}

type witnessResult struct {
	once     sync.Once
	violated bool
	rec      map[string]interface{}
}

var witnessMu sync.Mutex

// runWitnessFile: investigations run in parallel; each scenario file is executed once per run.
func (e *Engine) runWitnessFile(cfg RunConfig, w WitnessEntry, name string) (bool, map[string]interface{}) {
	witnessMu.Lock()
	if e.witnessCache == nil {
		e.witnessCache = map[string]*witnessResult{}
	}
	r := e.witnessCache[w.File]
	if r == nil {
		r = &witnessResult{}
		e.witnessCache[w.File] = r
	}
	witnessMu.Unlock()
	r.once.Do(func() { r.violated, r.rec = e.runWitnessFile1(cfg, w, name) })
	// callers add their own keys to the record
	cp := map[string]interface{}{}
	for k, v := range r.rec {
		cp[k] = v
	}
	return r.violated, cp
}

func (e *Engine) runWitnessFile1(cfg RunConfig, w WitnessEntry, name string) (bool, map[string]interface{}) {
	{
		src := filepath.Join("/verif/witness", w.File)
		dir := filepath.Join(cfg.Work, "replay")
		os.MkdirAll(dir, 0o755)
		target := filepath.Join(cfg.Repo, w.PkgDir, "zz_tqv_witness_test.go")
		ov := map[string]map[string]string{"Replace": {target: src}}
		ob, _ := json.Marshal(ov)
		ovFile := filepath.Join(dir, "overlay_w_"+sanitize(w.File)+".json")
		os.WriteFile(ovFile, ob, 0o644)
		pkg := "./" + w.PkgDir
		if w.PkgDir == "" {
			pkg = "."
		}
		cmd := exec.Command("go", "test", "-overlay", ovFile, "-vet=off", "-v", "-count=1", "-timeout", "60s", "-run", "^TestTqvWitness$", pkg)
		cmd.Dir = cfg.Repo
		cmd.Env = append(os.Environ(), "GOFLAGS=-mod=mod", "GOPROXY=off", "GOSUMDB=off", "GOTOOLCHAIN=local")
		var out bytes.Buffer
		cmd.Stdout = &out
		cmd.Stderr = &out
		cmd.Run()
		rec := map[string]interface{}{"witness_file": src, "kind": "heuristic witness scenario (hand-written from the property text), replayed on the real code"}
		for _, line := range strings.Split(out.String(), "\n") {
			if strings.HasPrefix(line, "TQV-WITNESS ") {
				var m map[string]interface{}
				if json.Unmarshal([]byte(line[len("TQV-WITNESS "):]), &m) == nil {
					rec["observed"] = m
					if v, ok := m["violated"].(bool); ok {
						return v, rec
					}
				}
			}
		}
		if strings.Contains(out.String(), "panic:") && !strings.Contains(out.String(), "test timed out") {
			rec["observed"] = map[string]interface{}{"panic": tail(out.String(), 1200)}
			return true, rec
		}
		rec["output"] = tail(out.String(), 1200)
		return false, rec
	}
}
