#!/bin/bash
# seedtest.sh <property> <patch.diff>: apply a seeded change to /repo, run the check, undo.
prop="$1"; patch="$2"
cd /repo || exit 2
git diff --quiet || { echo "repo not clean"; exit 2; }
git apply "$patch" || { echo "patch does not apply"; exit 2; }
(cd /verif && ./check "$prop" quick > /tmp/seedtest_$prop.out 2>&1; echo "exit=$?" >> /tmp/seedtest_$prop.out)
git checkout -- . ; git clean -fdq -- . 2>/dev/null
grep "^VIOLATION\|^  obligation\|exit=\|^C[0-9]*:" /tmp/seedtest_$prop.out | cut -c1-220
