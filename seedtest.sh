#!/bin/bash
# seedtest.sh <property> <patch.diff>: apply a seeded change to /repo, run the check, undo.
prop="$1"; patch="$2"
cd /repo || exit 2
git diff --quiet || { echo "repo not clean"; exit 2; }
git apply "$patch" || { echo "patch does not apply"; exit 2; }
# the evidence file committed under /verif must describe the unchanged tree: keep it aside
cp /verif/evidence/$prop.json /tmp/seedtest_evidence_$prop.json 2>/dev/null
(cd /verif && ./check "$prop" quick > /tmp/seedtest_$prop.out 2>&1; echo "exit=$?" >> /tmp/seedtest_$prop.out)
git checkout -- . ; git clean -fdq -- . 2>/dev/null
[ -f /tmp/seedtest_evidence_$prop.json ] && mv /tmp/seedtest_evidence_$prop.json /verif/evidence/$prop.json
grep "^VIOLATION\|^  obligation\|exit=\|^C[0-9]*:" /tmp/seedtest_$prop.out | cut -c1-220
